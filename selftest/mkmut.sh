#!/bin/bash
# usage: mkmut.sh <prop> <name> <file-relative-to-repo> <expected-obligation-regexp> <sed-expression>...
# Creates /verif/selftest/mutants/<prop>/<name>.patch from sed edits applied to a scratch copy of the file.
set -e
prop=$1; name=$2; file=$3; expect=$4; shift 4
d=$(mktemp -d /var/tmp/mkmut.XXXXXX)
mkdir -p $d/a/$(dirname $file) $d/b/$(dirname $file)
cp /repo/$file $d/a/$file; cp /repo/$file $d/b/$file
for e in "$@"; do sed -i "$e" $d/b/$file; done
if cmp -s $d/a/$file $d/b/$file; then echo "mkmut: sed expressions changed nothing in $file" >&2; rm -rf $d; exit 1; fi
mkdir -p /verif/selftest/mutants/$prop
out=/verif/selftest/mutants/$prop/$name.patch
{ echo "# expect: $expect"; (cd $d && diff -u a/$file b/$file || true); } > $out
rm -rf $d
echo "wrote $out"
