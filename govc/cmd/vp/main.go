package main

import (
	"flag"
	"fmt"
	"os"
	"strconv"

	"govc/internal/eng"
)

func usage() {
	fmt.Fprintln(os.Stderr, "usage: vp check <Cxx> [--tier quick|thorough] [--only re] [--keep-smt dir] | vp ssa <pkg> <func> | vp list <Cxx>")
	os.Exit(2)
}

func main() {
	if len(os.Args) < 2 {
		usage()
	}
	verifDir := os.Getenv("VERIF_DIR")
	if verifDir == "" {
		verifDir = "/verif"
	}
	repoDir := os.Getenv("VERIF_REPO")
	if repoDir == "" {
		repoDir = "/repo"
	}
	switch os.Args[1] {
	case "check":
		fs := flag.NewFlagSet("check", flag.ExitOnError)
		tier := fs.String("tier", "quick", "quick|thorough")
		only := fs.String("only", "", "regexp on obligation names")
		keep := fs.String("keep-smt", "", "directory to keep SMT files")
		verbose := fs.Bool("v", false, "verbose")
		allf := fs.Bool("all", false, "all functions under contract")
		noev := fs.Bool("no-evidence", false, "do not write evidence")
		outDir := fs.String("out", "", "directory for evidence/replays instead of the verif dir (selftest)")
		if len(os.Args) < 3 {
			usage()
		}
		prop := os.Args[2]
		fs.Parse(os.Args[3:])
		if t := os.Getenv("VERIF_TIER"); t != "" {
			*tier = t
		}
		seed := 0
		if s := os.Getenv("VERIF_SEED"); s != "" {
			seed, _ = strconv.Atoi(s)
		}
		opts := &eng.CheckOpts{Prop: prop, Tier: *tier, Seed: seed, Only: *only, KeepSMT: *keep, VerifDir: verifDir, RepoDir: repoDir, Verbose: *verbose, AllFuncs: *allf, NoEvidence: *noev || *only != "", OutDir: *outDir}
		code := eng.RunCheck(opts)
		if code == 0 && *tier == "thorough" && *only == "" && *outDir == "" && !*noev && os.Getenv("VP_NO_MUTANTS") == "" {
			// thorough: also run the property's must-fail corpus against this check; the
			// outcome goes into the evidence file and never changes the exit status
			exe, _ := os.Executable()
			total, killed, surv := eng.RunSelftestEmbedded(verifDir, repoDir, prop, exe)
			eng.PatchEvidenceMutants(verifDir, prop, total, killed, surv)
		}
		os.Exit(code)
	case "selftest":
		prop := ""
		if len(os.Args) > 2 {
			prop = os.Args[2]
		}
		exe, _ := os.Executable()
		os.Exit(eng.RunSelftest(verifDir, repoDir, prop, exe))
	case "sweep":
		if len(os.Args) < 4 {
			usage()
		}
		os.Exit(eng.RunSweep(repoDir, verifDir, os.Args[2], os.Args[3]))
	case "lockscan":
		os.Exit(eng.RunLockScan(repoDir))
	case "warmup":
		os.Exit(eng.Warmup(repoDir))
	case "replay":
		if len(os.Args) < 3 {
			usage()
		}
		os.Exit(eng.RunReplayFile(os.Args[2], verifDir, repoDir))
	case "ssa":
		if len(os.Args) < 4 {
			usage()
		}
		eng.DumpSSA(repoDir, os.Args[2], os.Args[3])
	default:
		usage()
	}
}
