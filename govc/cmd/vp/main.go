package main

import (
	"fmt"
	"os"

	"golang.org/x/tools/go/packages"
	"golang.org/x/tools/go/ssa"
	"golang.org/x/tools/go/ssa/ssautil"
)

func main() {
	cfg := &packages.Config{Mode: packages.LoadSyntax, Dir: "/repo", BuildFlags: []string{"-tags=verif"}}
	pkgs, err := packages.Load(cfg, os.Args[2:]...)
	if err != nil {
		panic(err)
	}
	prog, spkgs := ssautil.Packages(pkgs, ssa.InstantiateGenerics)
	_ = prog
	for _, p := range spkgs {
		if p == nil {
			continue
		}
		p.Build()
		for _, m := range p.Members {
			if f, ok := m.(*ssa.Function); ok && f.Name() == os.Args[1] {
				f.WriteTo(os.Stdout)
			}
		}
		for _, m := range p.Members {
			if t, ok := m.(*ssa.Type); ok {
				for _, typ := range []interface{ String() string }{t.Type()} {
					_ = typ
				}
				ms := prog.MethodSets.MethodSet(t.Type())
				for i := 0; i < ms.Len(); i++ {
					if f := prog.MethodValue(ms.At(i)); f != nil && f.Name() == os.Args[1] {
						f.WriteTo(os.Stdout)
					}
				}
			}
		}
	}
	fmt.Println("done")
}
