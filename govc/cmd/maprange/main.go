// maprange lists every range-over-map statement of the engine (development aid:
// such loops are where query text can come to depend on Go's map iteration order).
package main

import (
	"fmt"
	"go/ast"
	"go/types"

	"golang.org/x/tools/go/packages"
)

func main() {
	cfg := &packages.Config{Mode: packages.LoadSyntax}
	pkgs, err := packages.Load(cfg, "govc/internal/eng")
	if err != nil {
		panic(err)
	}
	for _, p := range pkgs {
		for _, f := range p.Syntax {
			ast.Inspect(f, func(n ast.Node) bool {
				if r, ok := n.(*ast.RangeStmt); ok {
					if t := p.TypesInfo.TypeOf(r.X); t != nil {
						if _, ok := t.Underlying().(*types.Map); ok {
							fmt.Println(p.Fset.Position(r.Pos()), types.ExprString(r.X))
						}
					}
				}
				return true
			})
		}
	}
}
