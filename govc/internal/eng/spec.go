package eng

import (
	"bufio"
	"fmt"
	"go/scanner"
	"go/token"
	"os"
	"strconv"
	"strings"
)

// ---------------------------------------------------------------- contract model

type Clause struct {
	Kind string // requires ensures invariant decreases assume modifies panics_if
	Loop int    // for loop clauses
	Text string
	E    Expr
	Why  string // assume ... because "why"
	RangeBound any // synthesised range-loop invariant: the ssa.Value of the length
	Callee string // assume at call <callee>#<k>
	CallOrd int
	File string
	Line int
	// modifies
	Mods []Expr
	Star bool // modifies *
}

type HandledClause struct {
	Field string
	By    []string
}

type Contract struct {
	Key        string // e.g. codec.V2.ReadHeaderWithValidation, sharding.GenerateShards
	Props      []string
	Requires   []*Clause
	Ghosts     []QVar // ghost parameters: chosen by the caller (existential at call sites)
	Ensures    []*Clause
	Assumes    []*Clause
	LoopInv    map[int][]*Clause
	LoopDec    map[int]*Clause
	LoopMod    map[int]*Clause
	CallAssumes []*Clause // assume at call <callee>#<k>: E because "..."
	CallAsserts []*Clause // assert at call <callee>#<k>: E   (obligation before the call)
	RecvAssumes []*Clause // assume received <type>: E(v)
	Reads      *Clause // heap footprint of a pure function: fields(T) entries (nothing = no heap)
	Preserves  *Clause // locations (usually fields(T)) left unchanged even under modifies *
	Callbacks  map[string]*Contract // contracts of func-typed parameters
	Modifies   *Clause // nil => default: nothing (for verified functions), see gen
	PanicsIf   *Clause
	Trusted    bool // contract assumed, body not verified
	Pure       bool
	NonDet     bool // pure (no side effects) but not a function of its arguments
	Stable     bool // pure and independent of mutable heap state (reads only immutable fields)
	Spec       bool // ghost spec function: inlined/unfolded at calls
	Lemma      bool
	Fuel       int
	Opaque     bool
	Decreases  *Clause
	File       string
	Line       int
	Witnesses  map[string]*Clause
	NoSweep    bool
	Sequential bool // obligation: no go statement in the function
	HoldsLock  bool // obligation: no Unlock call outside defer
	ChanState  bool // obligations: no send on / close of a closed channel, over ghost(closed, ch)
	Criticals  [][2]string // critical A .. B: no mutex release on a path from the call of A to the call of B
	Exhaustive []int       // loop ordinals that must be left only through their header
	ErrorsFrom []string    // errorsfrom A, B: every returned error originates in a call of one of these
	ReleasesLock bool      // releaseslock: no return with a sync mutex taken in the function still held
	Forbids    []string    // forbids A, B: the function calls none of these (it runs with a lock they take)
	NoReentrantLock bool   // noreentrantlock: no call of a locking method of the same receiver while the mutex may be held
	Handled    []HandledClause // received F handledby A, B: every value taken from channel field F reaches a call of A or B
	PrecededBy [][2]string // precededby A B: every call of A is dominated by a call of B
	HasErrorsFrom bool
	UsesAtCall bool // some clause mentions atcall(...): call-site states are recorded
	RecvNonNil bool
	Params     []string // optional explicit parameter names (for externals)
	Results    []string
	Atomics    []string
	Notes      []string
}

// ImplDecl: closed-world declaration that an interface has exactly one
// implementation in non-test code (checked mechanically over all MakeInterface sites).
type ImplDecl struct {
	Iface string // pkgpath.Name
	Impl  string // type expression, e.g. *readWriteSegment
	Pkg   string
	File  string
	Line  int
}

type SpecFile struct {
	Path      string
	Axioms    []*Clause
	Impls     []*ImplDecl
	Contracts []*Contract
	Defines   []*Define
	UFuns     []*UFun
}

// Define is a non-recursive specification macro: define name(p T, ...) R = expr
type Define struct {
	Name   string
	Pkg    string // import path of the package whose contract file states it ("" for trusted specs)
	Params []QVar
	Result string
	Body   Expr
	Text   string
	File   string
	Line   int
}

// ParseSpecFile scans `//@` lines (or raw lines for *.spec files).
func ParseSpecFile(path string, pkgName string) (*SpecFile, error) {
	f, err := os.Open(path)
	if err != nil {
		return nil, err
	}
	defer f.Close()
	raw := strings.HasSuffix(path, ".spec")
	sf := &SpecFile{Path: path}
	sc := bufio.NewScanner(f)
	sc.Buffer(make([]byte, 1<<20), 1<<20)
	var cur *Contract
	type pending struct {
		kind string
		loop int
		text string
		line int
	}
	var pend *pending
	var errs []string
	flush := func() {
		if pend == nil {
			return
		}
		p := pend
		pend = nil
		if cur == nil {
			errs = append(errs, fmt.Sprintf("%s:%d: clause outside a func block", path, p.line))
			return
		}
		if err := addClause(cur, p.kind, p.loop, p.text, path, p.line); err != nil {
			errs = append(errs, fmt.Sprintf("%s:%d: %v", path, p.line, err))
		}
	}
	ln := 0
	for sc.Scan() {
		ln++
		line := sc.Text()
		var body string
		if raw {
			t := strings.TrimSpace(line)
			if strings.HasPrefix(t, "#") {
				continue
			}
			body = line
			if t == "" {
				flush()
				continue
			}
		} else {
			t := strings.TrimLeft(line, " \t")
			if !strings.HasPrefix(t, "//@") {
				if strings.TrimSpace(t) == "" || !strings.HasPrefix(t, "//") {
					flush()
				}
				continue
			}
			body = t[3:]
		}
		// continuation: two or more leading spaces
		if strings.HasPrefix(body, "  ") || strings.HasPrefix(body, "\t") {
			if pend != nil {
				pend.text += " " + strings.TrimSpace(body)
				continue
			}
		}
		body = strings.TrimSpace(body)
		if body == "" {
			flush()
			continue
		}
		flush()
		word, rest := splitWord(body)
		switch word {
		case "func":
			key := strings.TrimSpace(rest)
			if i := strings.IndexAny(key, " ("); i >= 0 {
				// allow optional parameter list: func name(a, b) (r1, r2)
				k := key[:i]
				ps := strings.TrimSpace(key[i:])
				cur = &Contract{Key: k, File: path, Line: ln, LoopInv: map[int][]*Clause{}, LoopDec: map[int]*Clause{}, LoopMod: map[int]*Clause{}, Witnesses: map[string]*Clause{}}
				parseNameLists(cur, ps)
			} else {
				cur = &Contract{Key: key, File: path, Line: ln, LoopInv: map[int][]*Clause{}, LoopDec: map[int]*Clause{}, LoopMod: map[int]*Clause{}, Witnesses: map[string]*Clause{}}
			}
			if !strings.Contains(cur.Key, ".") || (pkgName != "" && !strings.Contains(strings.SplitN(cur.Key, ".", 2)[0], "/") && !raw) {
				if pkgName != "" && !strings.HasPrefix(cur.Key, pkgName+".") {
					cur.Key = pkgName + "." + cur.Key
				}
			}
			sf.Contracts = append(sf.Contracts, cur)
		case "define":
			d, err := parseDefine(rest, path, ln)
			if err != nil {
				errs = append(errs, fmt.Sprintf("%s:%d: %v", path, ln, err))
				continue
			}
			d.Pkg = pkgName
			sf.Defines = append(sf.Defines, d)
		case "impl":
			f := strings.Fields(rest)
			if len(f) != 2 {
				errs = append(errs, fmt.Sprintf("%s:%d: impl <Interface> <Type>", path, ln))
				continue
			}
			in := f[0]
			if pkgName != "" && !strings.Contains(in, "/") {
				in = pkgName + "." + in
			}
			sf.Impls = append(sf.Impls, &ImplDecl{Iface: in, Impl: f[1], Pkg: pkgName, File: path, Line: ln})
		case "axiom":
			e, err := ParseExpr(rest)
			if err != nil {
				errs = append(errs, fmt.Sprintf("%s:%d: axiom: %v", path, ln, err))
				continue
			}
			sf.Axioms = append(sf.Axioms, &Clause{Kind: "axiom", Text: rest, E: e, File: path, Line: ln})
		case "ghostfun":
			u, err := parseGhostFun(rest)
			if err != nil {
				errs = append(errs, fmt.Sprintf("%s:%d: %v", path, ln, err))
				continue
			}
			sf.UFuns = append(sf.UFuns, u)
		case "property":
			if cur != nil {
				cur.Props = append(cur.Props, strings.Fields(rest)...)
			}
		case "loop":
			n, r2 := splitWord(rest)
			idx, err := strconv.Atoi(n)
			if err != nil {
				errs = append(errs, fmt.Sprintf("%s:%d: bad loop ordinal %q", path, ln, n))
				continue
			}
			k, r3 := splitWord(r2)
			if k == "exhaustive" {
				// loop N exhaustive: the loop is left only through its header condition
				// (no break, return or goto out of its body): it visits everything its
				// header enumerates
				if cur != nil {
					cur.Exhaustive = append(cur.Exhaustive, idx)
				}
				continue
			}
			pend = &pending{kind: "loop-" + k, loop: idx, text: r3, line: ln}
		case "requires", "ensures", "assume", "modifies", "panics_if", "decreases", "witness", "preserves", "assert", "reads":
			pend = &pending{kind: word, text: rest, line: ln}
		case "callback":
			// callback <param> <clause...>: contract of a func-typed parameter
			pn, r2 := splitWord(rest)
			k, r3 := splitWord(r2)
			pend = &pending{kind: "cb:" + pn + ":" + k, text: r3, line: ln}
		case "ghost":
			// ghost <name> <type>: a specification-only parameter
			gn, gt := splitWord(rest)
			if cur == nil || gn == "" || strings.TrimSpace(gt) == "" {
				errs = append(errs, fmt.Sprintf("%s:%d: ghost <name> <type>", path, ln))
				continue
			}
			cur.Ghosts = append(cur.Ghosts, QVar{Name: gn, Type: strings.TrimSpace(gt)})
		case "trusted":
			cur.Trusted = true
		case "pure":
			cur.Pure = true
		case "nondet":
			cur.NonDet = true
		case "stable":
			cur.Stable = true
			cur.Pure = true
		case "spec":
			cur.Spec = true
			cur.Pure = true
		case "lemma":
			cur.Lemma = true
			cur.Pure = true
			cur.NonDet = true
		case "opaque":
			cur.Opaque = true
		case "holdslock":
			// the function never releases a mutex except through defer (it runs as one
			// critical section)
			cur.HoldsLock = true
		case "sequential":
			// the function starts no goroutine (what it calls runs before it continues)
			cur.Sequential = true
		case "critical":
			// critical A .. B: between the (single) call of A and the (single) call of B
			// the function releases no mutex (outside defers): both run in one
			// critical section
			parts := strings.Split(rest, "..")
			if len(parts) != 2 {
				errs = append(errs, fmt.Sprintf("%s:%d: critical <callee> .. <callee>", path, ln))
			} else {
				cur.Criticals = append(cur.Criticals, [2]string{strings.TrimSpace(parts[0]), strings.TrimSpace(parts[1])})
			}
		case "errorsfrom":
			// errorsfrom A, B, ...: every non-nil error the function returns is (a wrapper
			// of) an error returned by a call of one of the named callees, or by a callee
			// that carries an errorsfrom clause itself — the function adds no error of
			// its own (in particular none that depends on the content of a request)
			cur.HasErrorsFrom = true
			for _, n := range strings.Split(rest, ",") {
				if n = strings.TrimSpace(n); n != "" {
					cur.ErrorsFrom = append(cur.ErrorsFrom, n)
				}
			}
		case "noreentrantlock":
			// while the function may hold the mutex of its receiver (taken with Lock), it
			// calls no method of the same receiver that takes that mutex again
			cur.NoReentrantLock = true
		case "forbids":
			// forbids A, B: the function does not call A or B (typically: it runs with
			// a mutex held that they would take again)
			for _, n := range strings.Split(rest, ",") {
				if n = strings.TrimSpace(n); n != "" {
					cur.Forbids = append(cur.Forbids, n)
				}
			}
		case "received":
			// received F handledby A, B: every value the function takes from the channel
			// held in field F is passed to a call of A or B on every path, before the
			// function returns or takes the next value from that channel
			parts := strings.SplitN(rest, "handledby", 2)
			if len(parts) != 2 || strings.TrimSpace(parts[0]) == "" {
				errs = append(errs, fmt.Sprintf("%s:%d: received <field> handledby <callee>, ...", path, ln))
			} else {
				hc := HandledClause{Field: strings.TrimSpace(parts[0])}
				for _, n := range strings.Split(parts[1], ",") {
					if n = strings.TrimSpace(n); n != "" {
						hc.By = append(hc.By, n)
					}
				}
				cur.Handled = append(cur.Handled, hc)
			}
		case "precededby":
			// precededby A B: every call of A (a callee or builtin name) is dominated by a
			// call of B — on every path that reaches the call of A, B has been called
			// before (in the same iteration, when both sit in a loop)
			f := strings.Fields(rest)
			if len(f) != 2 {
				errs = append(errs, fmt.Sprintf("%s:%d: precededby <callee> <callee>", path, ln))
			} else {
				cur.PrecededBy = append(cur.PrecededBy, [2]string{f[0], f[1]})
			}
		case "releaseslock":
			// no path returns while a sync.Mutex / RWMutex write lock that the function
			// took (not through defer) is still held
			cur.ReleasesLock = true
		case "chanstate":
			// sends and closes in this function are checked against ghost(closed, ch):
			// a send or a close needs closed == 0, a close sets it to 1
			cur.ChanState = true
		case "nosweep":
			cur.NoSweep = true
		case "fuel":
			cur.Fuel, _ = strconv.Atoi(strings.TrimSpace(rest))
		case "note":
			if cur != nil {
				cur.Notes = append(cur.Notes, rest)
			}
		default:
			errs = append(errs, fmt.Sprintf("%s:%d: unknown clause %q", path, ln, word))
		}
	}
	flush()
	if len(errs) > 0 {
		return sf, fmt.Errorf("%s", strings.Join(errs, "\n"))
	}
	return sf, nil
}

func parseNameLists(c *Contract, s string) {
	// "(a, b) (r1, r2)" or "(a, b) r"
	s = strings.TrimSpace(s)
	if !strings.HasPrefix(s, "(") {
		return
	}
	i := strings.Index(s, ")")
	if i < 0 {
		return
	}
	for _, p := range strings.Split(s[1:i], ",") {
		p = strings.TrimSpace(p)
		if p != "" {
			c.Params = append(c.Params, strings.Fields(p)[0])
		}
	}
	rest := strings.TrimSpace(s[i+1:])
	rest = strings.Trim(rest, "()")
	for _, p := range strings.Split(rest, ",") {
		p = strings.TrimSpace(p)
		if p != "" {
			c.Results = append(c.Results, strings.Fields(p)[0])
		}
	}
}

func splitWord(s string) (string, string) {
	s = strings.TrimSpace(s)
	i := strings.IndexAny(s, " \t")
	if i < 0 {
		return s, ""
	}
	return s[:i], strings.TrimSpace(s[i+1:])
}

func addClause(c *Contract, kind string, loop int, text, file string, line int) error {
	if strings.HasPrefix(kind, "cb:") {
		parts := strings.SplitN(kind, ":", 3)
		if c.Callbacks == nil {
			c.Callbacks = map[string]*Contract{}
		}
		cb := c.Callbacks[parts[1]]
		if cb == nil {
			cb = &Contract{Key: c.Key + "$callback:" + parts[1], File: file, Line: line, LoopInv: map[int][]*Clause{}, LoopDec: map[int]*Clause{}, LoopMod: map[int]*Clause{}, Witnesses: map[string]*Clause{}}
			c.Callbacks[parts[1]] = cb
		}
		if parts[2] == "pure" {
			cb.Pure = true
			cb.NonDet = true
			return nil
		}
		return addClause(cb, parts[2], 0, text, file, line)
	}
	cl := &Clause{Kind: kind, Loop: loop, Text: text, File: file, Line: line}
	if strings.Contains(text, "atcall(") {
		c.UsesAtCall = true
	}
	switch kind {
	case "reads":
		t := strings.TrimSpace(text)
		if t != "nothing" && t != "" {
			for _, part := range splitTop(t, ',') {
				e, err := parseModEntry(part)
				if err != nil {
					return fmt.Errorf("reads %q: %v", part, err)
				}
				cl.Mods = append(cl.Mods, e)
			}
		}
		c.Reads = cl
		return nil
	case "assert":
		t := strings.TrimSpace(text)
		if !strings.HasPrefix(t, "at call ") {
			return fmt.Errorf("assert at call <callee>#<k>: <expr>")
		}
		rest := strings.TrimPrefix(t, "at call ")
		i := strings.Index(rest, ":")
		if i < 0 {
			return fmt.Errorf("assert at call <callee>#<k>: <expr>")
		}
		site := strings.TrimSpace(rest[:i])
		j := strings.LastIndex(site, "#")
		if j < 0 {
			return fmt.Errorf("assert at call: missing #<ordinal> in %q", site)
		}
		cl.Callee = site[:j]
		fmt.Sscanf(site[j+1:], "%d", &cl.CallOrd)
		e, err := ParseExpr(rest[i+1:])
		if err != nil {
			return err
		}
		cl.E = e
		cl.Text = "at call " + site + ": " + strings.TrimSpace(rest[i+1:])
		c.CallAsserts = append(c.CallAsserts, cl)
		return nil
	case "preserves":
		for _, part := range splitTop(strings.TrimSpace(text), ',') {
			e, err := parseModEntry(part)
			if err != nil {
				return fmt.Errorf("preserves %q: %v", part, err)
			}
			cl.Mods = append(cl.Mods, e)
		}
		c.Preserves = cl
		return nil
	case "modifies", "loop-modifies":
		t := strings.TrimSpace(text)
		if t == "nothing" || t == "" {
			// empty
		} else if t == "*" {
			cl.Star = true
		} else {
			for _, part := range splitTop(t, ',') {
				e, err := parseModEntry(part)
				if err != nil {
					return fmt.Errorf("modifies %q: %v", part, err)
				}
				cl.Mods = append(cl.Mods, e)
			}
		}
		if kind == "modifies" {
			c.Modifies = cl
		} else {
			c.LoopMod[loop] = cl
		}
		return nil
	case "assume":
		t := text
		if i := strings.LastIndex(t, " because "); i >= 0 {
			cl.Why = strings.Trim(strings.TrimSpace(t[i+9:]), "\"")
			t = t[:i]
		} else {
			return fmt.Errorf("assume without because \"reason\"")
		}
		if strings.HasPrefix(strings.TrimSpace(t), "at call ") {
			rest := strings.TrimPrefix(strings.TrimSpace(t), "at call ")
			i := strings.Index(rest, ":")
			if i < 0 {
				return fmt.Errorf("assume at call <callee>#<k>: <expr>")
			}
			site := strings.TrimSpace(rest[:i])
			t = rest[i+1:]
			j := strings.LastIndex(site, "#")
			if j < 0 {
				return fmt.Errorf("assume at call: missing #<ordinal> in %q", site)
			}
			cl.Callee = site[:j]
			fmt.Sscanf(site[j+1:], "%d", &cl.CallOrd)
			e, err := ParseExpr(t)
			if err != nil {
				return err
			}
			cl.E = e
			cl.Text = "at call " + site + ": " + strings.TrimSpace(t)
			c.CallAssumes = append(c.CallAssumes, cl)
			return nil
		}
		if strings.HasPrefix(strings.TrimSpace(t), "received ") {
			// assume received <elem type>: <pred over v> because "...": what every value
			// received from a channel of that element type satisfies in this function
			rest := strings.TrimPrefix(strings.TrimSpace(t), "received ")
			i := strings.LastIndex(rest, ":")
			if i < 0 {
				return fmt.Errorf("assume received <type>: <expr>")
			}
			cl.Callee = strings.TrimSpace(rest[:i])
			e, err := ParseExpr(rest[i+1:])
			if err != nil {
				return err
			}
			cl.E = e
			cl.Text = "received " + cl.Callee + ": " + strings.TrimSpace(rest[i+1:])
			c.RecvAssumes = append(c.RecvAssumes, cl)
			return nil
		}
		e, err := ParseExpr(t)
		if err != nil {
			return err
		}
		cl.E = e
		cl.Text = t
		c.Assumes = append(c.Assumes, cl)
		return nil
	case "witness":
		name, rest := splitWord(text)
		name = strings.TrimSuffix(name, ":")
		e, err := ParseExpr(rest)
		if err != nil {
			return err
		}
		cl.E = e
		cl.Text = rest
		c.Witnesses[name] = cl
		return nil
	}
	e, err := ParseExpr(text)
	if err != nil {
		return fmt.Errorf("%s %q: %v", kind, text, err)
	}
	cl.E = e
	switch kind {
	case "requires":
		c.Requires = append(c.Requires, cl)
	case "ensures":
		c.Ensures = append(c.Ensures, cl)
	case "panics_if":
		c.PanicsIf = cl
	case "decreases":
		c.Decreases = cl
	case "loop-invariant":
		c.LoopInv[loop] = append(c.LoopInv[loop], cl)
	case "loop-decreases":
		c.LoopDec[loop] = cl
	default:
		return fmt.Errorf("unknown clause kind %q", kind)
	}
	return nil
}

func splitTop(s string, sep byte) []string {
	var out []string
	depth := 0
	last := 0
	for i := 0; i < len(s); i++ {
		switch s[i] {
		case '(', '[':
			depth++
		case ')', ']':
			depth--
		default:
			if s[i] == sep && depth == 0 {
				out = append(out, s[last:i])
				last = i + 1
			}
		}
	}
	out = append(out, s[last:])
	return out
}

// ---------------------------------------------------------------- expressions

type Expr interface{ exprString() string }

type (
	EIdent struct{ Name string }
	EInt   struct{ V string }
	EStrL  struct{ V string }
	EChar  struct{ V int64 }
	EBin   struct {
		Op   string
		L, R Expr
	}
	EUn struct {
		Op string
		X  Expr
	}
	ECall struct {
		Fun  Expr
		Args []Expr
	}
	ESel struct {
		X    Expr
		Name string
	}
	EIndex struct{ X, I Expr }
	ESlice struct{ X, Lo, Hi Expr }
	EQuant struct {
		Forall bool
		Vars   []QVar
		Body   Expr
	}
	EOld struct{ X Expr }
)

type QVar struct{ Name, Type string }

func (e *EIdent) exprString() string { return e.Name }
func (e *EInt) exprString() string   { return e.V }
func (e *EStrL) exprString() string  { return strconv.Quote(e.V) }
func (e *EChar) exprString() string  { return strconv.FormatInt(e.V, 10) }
func (e *EBin) exprString() string {
	return "(" + e.L.exprString() + " " + e.Op + " " + e.R.exprString() + ")"
}
func (e *EUn) exprString() string { return e.Op + e.X.exprString() }
func (e *ECall) exprString() string {
	var a []string
	for _, x := range e.Args {
		a = append(a, x.exprString())
	}
	return e.Fun.exprString() + "(" + strings.Join(a, ", ") + ")"
}
func (e *ESel) exprString() string   { return e.X.exprString() + "." + e.Name }
func (e *EIndex) exprString() string { return e.X.exprString() + "[" + e.I.exprString() + "]" }
func (e *ESlice) exprString() string {
	lo, hi := "", ""
	if e.Lo != nil {
		lo = e.Lo.exprString()
	}
	if e.Hi != nil {
		hi = e.Hi.exprString()
	}
	return e.X.exprString() + "[" + lo + ":" + hi + "]"
}
func (e *EQuant) exprString() string {
	q := "exists"
	if e.Forall {
		q = "forall"
	}
	var vs []string
	for _, v := range e.Vars {
		vs = append(vs, v.Name+" "+v.Type)
	}
	return "(" + q + " " + strings.Join(vs, ", ") + " :: " + e.Body.exprString() + ")"
}
func (e *EOld) exprString() string { return "old(" + e.X.exprString() + ")" }

func ExprString(e Expr) string { return e.exprString() }

type tok struct {
	t   token.Token
	lit string
	pos int
	op  string // merged operator text for specials
}

type parser struct {
	toks []tok
	p    int
	src  string
}

func ParseExpr(src string) (Expr, error) {
	src = strings.TrimSpace(src)
	var s scanner.Scanner
	fset := token.NewFileSet()
	file := fset.AddFile("", fset.Base(), len(src))
	var serr error
	s.Init(file, []byte(src), func(pos token.Position, msg string) { serr = fmt.Errorf("%s at %d", msg, pos.Offset) }, 0)
	var toks []tok
	for {
		pos, t, lit := s.Scan()
		if t == token.EOF {
			break
		}
		if t == token.SEMICOLON && lit == "\n" {
			continue
		}
		toks = append(toks, tok{t: t, lit: lit, pos: file.Offset(pos)})
	}
	if serr != nil {
		return nil, serr
	}
	// merge ==> , <==> , ::
	var out []tok
	for i := 0; i < len(toks); i++ {
		a := toks[i]
		if a.t == token.LEQ && i+2 < len(toks) && toks[i+1].t == token.ASSIGN && toks[i+1].pos == a.pos+2 && toks[i+2].t == token.GTR && toks[i+2].pos == a.pos+3 {
			out = append(out, tok{t: token.ILLEGAL, op: "<==>", pos: a.pos})
			i += 2
			continue
		}
		if a.t == token.EQL && i+1 < len(toks) && toks[i+1].t == token.GTR && toks[i+1].pos == a.pos+2 {
			out = append(out, tok{t: token.ILLEGAL, op: "==>", pos: a.pos})
			i++
			continue
		}
		if a.t == token.COLON && i+1 < len(toks) && toks[i+1].t == token.COLON && toks[i+1].pos == a.pos+1 {
			out = append(out, tok{t: token.ILLEGAL, op: "::", pos: a.pos})
			i++
			continue
		}
		out = append(out, a)
	}
	p := &parser{toks: out, src: src}
	e, err := p.parseExpr(0)
	if err != nil {
		return nil, err
	}
	if p.p < len(p.toks) {
		return nil, fmt.Errorf("unexpected token %q at %d in %q", p.tokText(p.toks[p.p]), p.toks[p.p].pos, src)
	}
	return e, nil
}

func (p *parser) tokText(t tok) string {
	if t.op != "" {
		return t.op
	}
	if t.lit != "" {
		return t.lit
	}
	return t.t.String()
}

func (p *parser) peek() *tok {
	if p.p < len(p.toks) {
		return &p.toks[p.p]
	}
	return nil
}

func binPrec(t *tok) (int, string) {
	if t == nil {
		return -1, ""
	}
	if t.op == "<==>" {
		return 1, "<==>"
	}
	if t.op == "==>" {
		return 2, "==>"
	}
	switch t.t {
	case token.LOR:
		return 3, "||"
	case token.LAND:
		return 4, "&&"
	case token.EQL, token.NEQ, token.LSS, token.LEQ, token.GTR, token.GEQ:
		return 5, t.t.String()
	case token.ADD, token.SUB, token.OR, token.XOR:
		return 6, t.t.String()
	case token.MUL, token.QUO, token.REM, token.AND, token.SHL, token.SHR, token.AND_NOT:
		return 7, t.t.String()
	}
	return -1, ""
}

func (p *parser) parseExpr(minPrec int) (Expr, error) {
	lhs, err := p.parseUnary()
	if err != nil {
		return nil, err
	}
	for {
		t := p.peek()
		prec, op := binPrec(t)
		if prec < 0 || prec < minPrec {
			return lhs, nil
		}
		p.p++
		next := prec + 1
		if op == "==>" {
			next = prec // right assoc
		}
		rhs, err := p.parseExpr(next)
		if err != nil {
			return nil, err
		}
		lhs = &EBin{Op: op, L: lhs, R: rhs}
	}
}

func (p *parser) parseUnary() (Expr, error) {
	t := p.peek()
	if t == nil {
		return nil, fmt.Errorf("unexpected end of expression %q", p.src)
	}
	switch t.t {
	case token.NOT:
		p.p++
		x, err := p.parseUnary()
		if err != nil {
			return nil, err
		}
		return &EUn{Op: "!", X: x}, nil
	case token.SUB:
		p.p++
		x, err := p.parseUnary()
		if err != nil {
			return nil, err
		}
		return &EUn{Op: "-", X: x}, nil
	case token.MUL:
		p.p++
		x, err := p.parseUnary()
		if err != nil {
			return nil, err
		}
		return &EUn{Op: "*", X: x}, nil
	case token.XOR:
		p.p++
		x, err := p.parseUnary()
		if err != nil {
			return nil, err
		}
		return &EUn{Op: "^", X: x}, nil
	}
	return p.parsePostfix()
}

func (p *parser) expect(tt token.Token) error {
	t := p.peek()
	if t == nil || t.t != tt || t.op != "" {
		got := "end"
		if t != nil {
			got = p.tokText(*t)
		}
		return fmt.Errorf("expected %s, got %s in %q", tt, got, p.src)
	}
	p.p++
	return nil
}

func (p *parser) parsePrimary() (Expr, error) {
	t := p.peek()
	if t == nil {
		return nil, fmt.Errorf("unexpected end in %q", p.src)
	}
	switch t.t {
	case token.INT:
		p.p++
		return &EInt{V: t.lit}, nil
	case token.STRING:
		p.p++
		s, err := strconv.Unquote(t.lit)
		if err != nil {
			return nil, err
		}
		return &EStrL{V: s}, nil
	case token.CHAR:
		p.p++
		s, err := strconv.Unquote(t.lit)
		if err != nil {
			return nil, err
		}
		return &EChar{V: int64([]rune(s)[0])}, nil
	case token.LPAREN:
		p.p++
		e, err := p.parseExpr(0)
		if err != nil {
			return nil, err
		}
		if err := p.expect(token.RPAREN); err != nil {
			return nil, err
		}
		return e, nil
	case token.IDENT:
		p.p++
		if t.lit == "forall" || t.lit == "exists" {
			q := &EQuant{Forall: t.lit == "forall"}
			for {
				n := p.peek()
				if n == nil || n.t != token.IDENT {
					return nil, fmt.Errorf("quantifier: expected variable name in %q", p.src)
				}
				p.p++
				// type: sequence of tokens up to ',' or '::'
				var ty strings.Builder
				for {
					x := p.peek()
					if x == nil {
						return nil, fmt.Errorf("quantifier: unterminated in %q", p.src)
					}
					if x.op == "::" || x.t == token.COMMA {
						break
					}
					ty.WriteString(p.tokText(*x))
					p.p++
				}
				q.Vars = append(q.Vars, QVar{Name: n.lit, Type: ty.String()})
				x := p.peek()
				if x.op == "::" {
					p.p++
					break
				}
				p.p++ // comma
			}
			// variables with empty type take the next declared type
			for i := len(q.Vars) - 2; i >= 0; i-- {
				if q.Vars[i].Type == "" {
					q.Vars[i].Type = q.Vars[i+1].Type
				}
			}
			body, err := p.parseExpr(0)
			if err != nil {
				return nil, err
			}
			q.Body = body
			return q, nil
		}
		return &EIdent{Name: t.lit}, nil
	case token.FUNC, token.TYPE, token.RANGE, token.MAP:
		p.p++
		return &EIdent{Name: t.lit}, nil
	}
	return nil, fmt.Errorf("unexpected token %q in %q", p.tokText(*t), p.src)
}

func (p *parser) parsePostfix() (Expr, error) {
	x, err := p.parsePrimary()
	if err != nil {
		return nil, err
	}
	for {
		t := p.peek()
		if t == nil || t.op != "" {
			return x, nil
		}
		switch t.t {
		case token.PERIOD:
			p.p++
			n := p.peek()
			if n == nil || n.t != token.IDENT {
				return nil, fmt.Errorf("expected field name after '.' in %q", p.src)
			}
			p.p++
			x = &ESel{X: x, Name: n.lit}
		case token.LPAREN:
			p.p++
			var args []Expr
			for {
				n := p.peek()
				if n != nil && n.t == token.RPAREN && n.op == "" {
					p.p++
					break
				}
				a, err := p.parseExpr(0)
				if err != nil {
					return nil, err
				}
				args = append(args, a)
				n = p.peek()
				if n != nil && n.t == token.COMMA {
					p.p++
					continue
				}
				if err := p.expect(token.RPAREN); err != nil {
					return nil, err
				}
				break
			}
			if id, ok := x.(*EIdent); ok && id.Name == "old" && len(args) == 1 {
				x = &EOld{X: args[0]}
			} else {
				x = &ECall{Fun: x, Args: args}
			}
		case token.LBRACK:
			p.p++
			var lo, hi Expr
			n := p.peek()
			if n != nil && n.t == token.COLON && n.op == "" {
				p.p++
				n = p.peek()
				if n != nil && n.t == token.RBRACK {
					p.p++
					x = &ESlice{X: x}
					continue
				}
				hi, err = p.parseExpr(0)
				if err != nil {
					return nil, err
				}
				if err := p.expect(token.RBRACK); err != nil {
					return nil, err
				}
				x = &ESlice{X: x, Hi: hi}
				continue
			}
			lo, err = p.parseExpr(0)
			if err != nil {
				return nil, err
			}
			n = p.peek()
			if n != nil && n.t == token.COLON && n.op == "" {
				p.p++
				n = p.peek()
				if n != nil && n.t == token.RBRACK {
					p.p++
					x = &ESlice{X: x, Lo: lo}
					continue
				}
				hi, err = p.parseExpr(0)
				if err != nil {
					return nil, err
				}
				if err := p.expect(token.RBRACK); err != nil {
					return nil, err
				}
				x = &ESlice{X: x, Lo: lo, Hi: hi}
				continue
			}
			if err := p.expect(token.RBRACK); err != nil {
				return nil, err
			}
			x = &EIndex{X: x, I: lo}
		default:
			return x, nil
		}
	}
}

func parseParamList(s string) ([]QVar, error) {
	var out []QVar
	for _, p := range splitTop(s, ',') {
		p = strings.TrimSpace(p)
		if p == "" {
			continue
		}
		n, t := splitWord(p)
		if t == "" {
			return nil, fmt.Errorf("parameter %q needs a type", p)
		}
		out = append(out, QVar{Name: n, Type: t})
	}
	return out, nil
}

// define name(p T, q U) R = body
func parseDefine(s, file string, line int) (*Define, error) {
	i := strings.Index(s, "(")
	j := matchParen(s, i)
	if i < 0 || j < 0 {
		return nil, fmt.Errorf("define: expected name(params) type = expr")
	}
	d := &Define{Name: strings.TrimSpace(s[:i]), File: file, Line: line, Text: s}
	ps, err := parseParamList(s[i+1 : j])
	if err != nil {
		return nil, err
	}
	d.Params = ps
	rest := s[j+1:]
	k := strings.Index(rest, "=")
	if k < 0 {
		return nil, fmt.Errorf("define: missing '='")
	}
	d.Result = strings.TrimSpace(rest[:k])
	e, err := ParseExpr(rest[k+1:])
	if err != nil {
		return nil, err
	}
	d.Body = e
	return d, nil
}

// ghostfun name(T, U) R
func parseGhostFun(s string) (*UFun, error) {
	i := strings.Index(s, "(")
	j := matchParen(s, i)
	if i < 0 || j < 0 {
		return nil, fmt.Errorf("ghostfun: expected name(types) type")
	}
	u := &UFun{Name: strings.TrimSpace(s[:i]), Result: strings.TrimSpace(s[j+1:])}
	for _, p := range splitTop(s[i+1:j], ',') {
		p = strings.TrimSpace(p)
		if p != "" {
			f := strings.Fields(p)
			u.Params = append(u.Params, f[len(f)-1])
		}
	}
	return u, nil
}

func matchParen(s string, i int) int {
	if i < 0 {
		return -1
	}
	d := 0
	for k := i; k < len(s); k++ {
		switch s[k] {
		case '(':
			d++
		case ')':
			d--
			if d == 0 {
				return k
			}
		}
	}
	return -1
}

// parseModEntry: an entry of a modifies / preserves clause; fields(<type>) takes a
// type name (possibly a full import path), not an expression.
func parseModEntry(part string) (Expr, error) {
	p := strings.TrimSpace(part)
	if strings.HasPrefix(p, "fields(") && strings.HasSuffix(p, ")") {
		return &ECall{Fun: &EIdent{Name: "fields"}, Args: []Expr{&EIdent{Name: strings.TrimSpace(p[7 : len(p)-1])}}}, nil
	}
	if strings.HasPrefix(p, "cells(") && strings.HasSuffix(p, ")") {
		// cells(T): stand-alone cells of type T (what a *T can point to when it does not
		// point into a slice or struct)
		return &ECall{Fun: &EIdent{Name: "cells"}, Args: []Expr{&EIdent{Name: strings.TrimSpace(p[6 : len(p)-1])}}}, nil
	}
	return ParseExpr(p)
}

// mentionsAny reports whether e refers to one of the names as a free identifier.
func mentionsAny(e Expr, names map[string]bool) bool {
	switch x := e.(type) {
	case *EIdent:
		return names[x.Name]
	case *EBin:
		return mentionsAny(x.L, names) || mentionsAny(x.R, names)
	case *EUn:
		return mentionsAny(x.X, names)
	case *ECall:
		if mentionsAny(x.Fun, names) {
			return true
		}
		for _, a := range x.Args {
			if mentionsAny(a, names) {
				return true
			}
		}
	case *ESel:
		return mentionsAny(x.X, names)
	case *EIndex:
		return mentionsAny(x.X, names) || mentionsAny(x.I, names)
	case *ESlice:
		return mentionsAny(x.X, names) || (x.Lo != nil && mentionsAny(x.Lo, names)) || (x.Hi != nil && mentionsAny(x.Hi, names))
	case *EQuant:
		inner := map[string]bool{}
		for k, v := range names {
			inner[k] = v
		}
		for _, q := range x.Vars {
			delete(inner, q.Name)
		}
		return mentionsAny(x.Body, inner)
	case *EOld:
		return mentionsAny(x.X, names)
	}
	return false
}
