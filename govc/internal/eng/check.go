package eng

import (
	"go/token"
	"runtime/debug"
	"encoding/json"
	"fmt"
	"go/types"
	"os"
	"path/filepath"
	"regexp"
	"sort"
	"strconv"
	"strings"
	"sync"
	"time"

	"golang.org/x/tools/go/ssa"
)

type CheckOpts struct {
	Prop     string
	Tier     string
	Seed     int
	Only     string // regexp on obligation names
	KeepSMT  string
	VerifDir string
	RepoDir  string
	Verbose  bool
	NoEvidence bool
	AllFuncs bool // ignore property filter (debugging)
	OutDir   string // where evidence/ and replays/ go (default: VerifDir)
}

type KnownFinding struct {
	Property   string `json:"property"`
	Obligation string `json:"obligation"`
	Status     string `json:"status"` // open | fixed
	Witness    string `json:"witness,omitempty"`
	Commit     string `json:"commit,omitempty"`
	Note       string `json:"note"`
}

func loadKnownFindings(path string) ([]KnownFinding, error) {
	b, err := os.ReadFile(path)
	if err != nil {
		if os.IsNotExist(err) {
			return nil, nil
		}
		return nil, err
	}
	var out []KnownFinding
	for _, line := range strings.Split(string(b), "\n") {
		line = strings.TrimSpace(line)
		if line == "" || strings.HasPrefix(line, "#") || strings.HasPrefix(line, "fixed:") {
			// "fixed: property=<id> <commit> <what failed>" lines document repaired
			// defects; they suppress nothing
			continue
		}
		var k KnownFinding
		if err := json.Unmarshal([]byte(line), &k); err != nil {
			return nil, fmt.Errorf("known_findings: %v in %q", err, line)
		}
		out = append(out, k)
	}
	return out, nil
}

type FnReport struct {
	Key         string
	Contract    *Contract
	Gen         *Gen
	Err         string
	Obligations []*Obligation
}

type oblResult struct {
	O        *Obligation
	Status   string // proved | known | failed | undecided | machinery
	Res      *SolveResult
	Findings []KnownFinding
	Replay   string
	Confirmed string // replay outcome
	Stage     string // which stage of decide() discharged it
}

// contractDirs lists package patterns that contain contract files.
func contractDirs(repo string) []string {
	var out []string
	filepath.Walk(repo, func(p string, info os.FileInfo, err error) error {
		if err != nil {
			return nil
		}
		if info.IsDir() && (info.Name() == ".git" || info.Name() == "node_modules") {
			return filepath.SkipDir
		}
		if !info.IsDir() && strings.HasPrefix(info.Name(), "zz_contracts") && strings.HasSuffix(info.Name(), "_verif.go") {
			rel, _ := filepath.Rel(repo, filepath.Dir(p))
			out = append(out, "./"+rel)
		}
		return nil
	})
	sort.Strings(out)
	var uniq []string
	for i, d := range out {
		if i == 0 || d != out[i-1] {
			uniq = append(uniq, d)
		}
	}
	return uniq
}

func hasProp(c *Contract, p string) bool {
	for _, x := range c.Props {
		if x == p {
			return true
		}
	}
	return false
}

// BuildScript renders the query for one obligation.
var termMu sync.Mutex // term construction is not thread-safe

func (o *Obligation) Script(extra ...*Term) string {
	termMu.Lock()
	defer termMu.Unlock()
	return Script(o.asserts(true, extra...), true)
}

// ScriptSeeded: goal-directed instantiation (smaller query, tried first).
func (o *Obligation) ScriptSeeded(extra ...*Term) string {
	termMu.Lock()
	defer termMu.Unlock()
	o.seeded = true
	defer func() { o.seeded = false }()
	return Script(o.asserts(true, extra...), true)
}

// asserts builds the query; sliced=false keeps every assumption (used for replay
// models, whose inputs must satisfy all preconditions).
func (o *Obligation) asserts(sliced bool, extra ...*Term) []*Term {
	// Skolem constants are numbered per query, not per process: the text of a query
	// then does not depend on how the worker goroutines interleave, and a proof
	// found once is found again (callers hold termMu; nothing keeps a skolemised
	// term beyond the query it was made for).
	skCounter = 0
	var asserts []*Term
	if sliced && o.Block != nil && o.Block.Parent() == o.Gen.Fn {
		// A definition made in a block that cannot reach the program point is
		// dropped when it mentions a symbol unknown to everything else (the values
		// and heap versions created there); lazily stated global facts stay.
		g := o.Gen
		anc := g.ancestors(o.Block)
		if g.symCache == nil {
			g.symCache = map[*Term][]string{}
		}
		symsOf := func(t *Term) []string {
			if r, ok := g.symCache[t]; ok {
				return r
			}
			consts := map[string]*Sort{}
			collectSyms([]*Term{t}, consts, map[string]*FunDecl{}, map[*Term]bool{})
			r := make([]string, 0, len(consts))
			for k := range consts {
				r = append(r, k)
			}
			g.symCache[t] = r
			return r
		}
		known := map[string]bool{}
		foreign := make([]bool, o.NDefs)
		for i, d := range g.Defs[:o.NDefs] {
			if b, ok := g.defBlk[d]; ok && b.Parent() == g.Fn && !anc[b] {
				foreign[i] = true
				continue
			}
			for _, k := range symsOf(d) {
				known[k] = true
			}
		}
		for _, t := range extra {
			for _, k := range symsOf(t) {
				known[k] = true
			}
		}
		for _, t := range []*Term{o.Reach, o.Goal} {
			if t != nil {
				for _, k := range symsOf(t) {
					known[k] = true
				}
			}
		}
		for i, d := range g.Defs[:o.NDefs] {
			if foreign[i] {
				drop := false
				for _, k := range symsOf(d) {
					if !known[k] {
						drop = true
						break
					}
				}
				if drop {
					continue
				}
			}
			asserts = append(asserts, d)
		}
	} else {
		asserts = append([]*Term{}, o.Gen.Defs[:o.NDefs]...)
	}
	if sliced && o.famSlice && o.Goal != nil {
		// keep only the definitions that talk about the heap components of the goal
		// (and the purely scalar ones); dropping assumptions is sound for proving
		fams := map[string]bool{}
		for _, c := range arrayConsts(o.Goal) {
			fams[heapFamily(c)] = true
		}
		if len(fams) > 0 && len(fams) <= 4 {
			var kept []*Term
			for _, d := range asserts {
				ok := true
				for _, c := range arrayConsts(d) {
					if !fams[heapFamily(c)] {
						ok = false
						break
					}
				}
				if ok {
					kept = append(kept, d)
				}
			}
			asserts = kept
		}
	}
	asserts = append(asserts, extra...)
	reach := o.Reach
	if o.caseSub != nil {
		reach = And(o.Reach, o.caseSub.Cond)
	}
	asserts = append(asserts, reach)
	if !o.MustSat {
		asserts = append(asserts, skolemNeg(o.Goal))
	} else if o.Goal != nil {
		asserts = append(asserts, o.Goal)
	}
	if o.caseSub != nil {
		for i, a := range asserts {
			asserts[i] = Subst(a, o.caseSub.Sub)
		}
	}
	if o.eqProp {
		asserts = propagateEqs(asserts)
	}
	sl := asserts
	if sliced {
		sl = sliceCOI(asserts, len(extra)+2)
	}
	{
		// the definitions elimDiv adds go before the roots (path condition, negated
		// goal), which must stay last: goal-directed instantiation seeds from them
		roots := len(extra) + 2
		n := len(sl)
		ed := elimDiv(sl)
		if len(ed) > n && n >= roots {
			out := append([]*Term{}, ed[:n-roots]...)
			out = append(out, ed[n:]...)
			out = append(out, ed[n-roots:n]...)
			ed = out
		}
		sl = ed
	}
	if !o.MustSat {
		// skolemise every assertion: afterwards all quantifiers are positive
		// universals and every witness is a visible constant
		for i, a := range sl {
			if quantInside(a) {
				sl[i] = skolemPos(a)
			}
		}
		if o.seeded {
			switch {
			case o.ground && o.groundLevel == 0:
				// no instances of user quantifiers at all
			case o.ground && o.groundLevel == 1:
				strictInst = true
				sl = InstantiateSeeded(sl, 2, 24, len(extra)+2)
				strictInst = false
			case o.ground && o.groundLevel == 2:
				strictInst = true
				sl = InstantiateSeeded(sl, 4, 48, len(extra)+2)
				strictInst = false
			default:
				sl = InstantiateSeeded(sl, 3, 48, len(extra)+2)
			}
			if o.ground {
				// instances only: the query becomes (nearly) quantifier-free
				for i, a := range sl {
					sl[i] = dropPosForalls(a)
				}
			}
		} else {
			sl = Instantiate(sl, 2, 48)
		}
		sl = o.Gen.typeGroundReads(sl)
	}
	return sl
}

// propagateEqs rewrites the assertions with the definitional equalities among
// them: an assertion  (= (select A i) c)  with c a constant (the value an SSA
// load was given) lets every other occurrence of the read be replaced by c.
// After that a path that speaks of t.currentSegment and a callee contract that
// was stated about the loaded pointer use the same terms, read-over-write folds
// syntactically, and goal-directed instantiation finds the instances that E-matching
// otherwise has to find modulo the equality. Sound for proving: each new assertion
// follows from the old set (rewriting by asserted equalities), the defining
// equalities stay (with their own reads rewritten below the top only).
func propagateEqs(as []*Term) []*Term {
	occurs := func(c, in *Term) bool {
		seen := map[*Term]bool{}
		var rec func(t *Term) bool
		rec = func(t *Term) bool {
			if t == c {
				return true
			}
			if seen[t] {
				return false
			}
			seen[t] = true
			for _, a := range t.Args {
				if rec(a) {
					return true
				}
			}
			return false
		}
		return rec(in)
	}
	for round := 0; round < 4; round++ {
		m := map[*Term]*Term{}
		def := map[int]bool{}
		for i, a := range as {
			if a.Op != "=" || len(a.Args) != 2 {
				continue
			}
			l, r := a.Args[0], a.Args[1]
			if l.Op == "const" && r.Op == "select" {
				l, r = r, l
			}
			if l.Op != "select" || r.Op != "const" || occurs(r, l) {
				continue
			}
			if _, dup := m[l]; dup {
				continue
			}
			m[l] = r
			def[i] = true
		}
		if len(m) == 0 {
			break
		}
		changed := false
		out := make([]*Term, len(as))
		for i, a := range as {
			if def[i] {
				l, r := a.Args[0], a.Args[1]
				if l.Op == "const" && r.Op == "select" {
					l, r = r, l
				}
				l2 := Select(Subst(l.Args[0], m), Subst(l.Args[1], m))
				out[i] = Eq(l2, r)
			} else {
				out[i] = Subst(a, m)
			}
			if out[i] != a {
				changed = true
			}
		}
		as = out
		if !changed {
			break
		}
	}
	return as
}

// sliceCOI keeps the assertions that share symbols (transitively) with the last
// `roots` assertions. Dropping assumptions is sound for proving.
func sliceCOI(asserts []*Term, roots int) []*Term {
	n := len(asserts)
	syms := make([]map[string]bool, n)
	for i, a := range asserts {
		consts := map[string]*Sort{}
		funs := map[string]*FunDecl{}
		collectSyms([]*Term{a}, consts, funs, map[*Term]bool{})
		m := map[string]bool{}
		for k := range consts {
			m[k] = true
		}
		for k := range funs {
			// very common function symbols do not connect assertions
			if k == "vp_strlen" || k == "vp_dyntype" {
				continue
			}
			m["f:"+k] = true
		}
		syms[i] = m
	}
	in := make([]bool, n)
	live := map[string]bool{}
	for i := n - roots; i < n; i++ {
		if i < 0 {
			continue
		}
		in[i] = true
		for s := range syms[i] {
			live[s] = true
		}
	}
	changed := true
	for changed {
		changed = false
		for i := 0; i < n; i++ {
			if in[i] {
				continue
			}
			hit := false
			for s := range syms[i] {
				if live[s] {
					hit = true
					break
				}
			}
			if hit {
				in[i] = true
				changed = true
				for s := range syms[i] {
					live[s] = true
				}
			}
		}
	}
	var out []*Term
	for i, a := range asserts {
		if in[i] {
			out = append(out, a)
		}
	}
	return out
}

type Evidence struct {
	PropertyID  string         `json:"property_id"`
	Tier        string         `json:"tier"`
	Seed        int            `json:"seed"`
	Level       string         `json:"level"`
	Coverage    map[string]any `json:"coverage"`
	Assumptions []string       `json:"assumptions"`
	WallS       float64        `json:"wall_s"`
	Violations  int            `json:"violations"`
}

func RunCheck(opts *CheckOpts) int {
	start := time.Now()
	prop := opts.Prop
	if opts.OutDir == "" {
		opts.OutDir = opts.VerifDir
	}
	fail := func(format string, a ...any) int {
		fmt.Printf("BROKEN property=%s reason=%s\n", prop, fmt.Sprintf(format, a...))
		return 2
	}
	dirs := contractDirs(opts.RepoDir)
	if len(dirs) == 0 {
		return fail("no contract files under %s", opts.RepoDir)
	}
	prog, err := Load(opts.RepoDir, []string{"./..."})
	if err != nil {
		return fail("load: %v", err)
	}
	if err := prog.LoadTrusted(filepath.Join(opts.VerifDir, "trusted")); err != nil {
		return fail("trusted specs: %v", err)
	}
	if err := prog.ResolveImpls(); err != nil {
		return fail("impl declarations: %v", err)
	}
	known, err := loadKnownFindings(filepath.Join(opts.VerifDir, "known-findings.txt"))
	if err != nil {
		return fail("%v", err)
	}
	scratch := os.Getenv("VP_SCRATCH")
	if scratch == "" {
		scratch = fmt.Sprintf("/var/tmp/vp-%d", os.Getpid())
	}
	os.MkdirAll(scratch, 0o755)
	defer os.RemoveAll(scratch)
	cfg := &SolverCfg{ScratchDir: scratch, TimeoutS: 10, FirstS: 3, Seed: opts.Seed}
	if opts.Tier == "thorough" {
		cfg.TimeoutS = 120
		cfg.FirstS = 10
		cfg.CrossCheck = true
	}

	// functions under contract for this property
	var keys []string
	for k, c := range prog.Contracts {
		if c.Trusted && !((c.Sequential || len(c.Exhaustive) > 0 || len(c.Criticals) > 0 || c.ReleasesLock || c.HasErrorsFrom || len(c.Forbids) > 0 || c.NoReentrantLock || len(c.Handled) > 0 || len(c.PrecededBy) > 0) && hasProp(c, prop)) {
			continue
		}
		if opts.AllFuncs || hasProp(c, prop) {
			keys = append(keys, k)
		}
	}
	sort.Strings(keys)
	if len(keys) == 0 {
		return fail("no function under contract carries property %s", prop)
	}
	var reports []*FnReport
	var all []*Obligation
	var broken []string
	for _, k := range keys {
		c := prog.Contracts[k]
		fn := prog.Funcs[k]
		r := &FnReport{Key: k, Contract: c}
		reports = append(reports, r)
		if fn == nil {
			if iface, method, ok := prog.ifaceOfKey(k); ok {
				// interface-level contract: refinement obligations for every implementation under contract
				impls := prog.implementers(iface, method)
				if len(impls) == 0 && !c.Trusted {
					r.Err = "interface contract " + ShortKey(k) + " has no implementation under contract"
					continue
				}
				for _, f := range impls {
					ik := FuncKey(f)
					rr := &FnReport{Key: ik + "~" + ShortKey(k), Contract: c}
					reports = append(reports, rr)
					rg := NewGen(prog, f, prog.Contracts[ik])
					rg.prefix = ShortKey(ik) + "~refines"
					func() {
						defer func() {
							if e := recover(); e != nil {
								rr.Err = fmt.Sprintf("engine panic: %v", e)
								if opts.Verbose {
									panic(e)
								}
							}
						}()
						rg.RunRefine(c, prog.Contracts[ik])
					}()
					rr.Gen = rg
					if rr.Err == "" && len(rg.BindErrs) > 0 {
						rr.Err = "contract does not bind: " + strings.Join(rg.BindErrs, "; ")
					}
					if rr.Err != "" {
						continue
					}
					rr.Obligations = rg.Obls
					all = append(all, rg.Obls...)
				}
				continue
			}
			r.Err = "contract does not bind: function " + ShortKey(k) + " not found"
			continue
		}
		if c.Trusted && !c.Sequential && (len(c.Exhaustive) > 0 || len(c.Criticals) > 0 || c.ReleasesLock || c.HasErrorsFrom || len(c.Forbids) > 0 || c.NoReentrantLock || len(c.Handled) > 0 || len(c.PrecededBy) > 0) && fn.Blocks != nil {
			// structural obligations only: the body is not verified
			g := NewGen(prog, fn, c)
			r.Gen = g
			cfg, cerr := AnalyzeCFG(fn)
			if cerr != nil {
				r.Err = "contract does not bind: " + cerr.Error()
				continue
			}
			obs, e := exhaustiveObligations(g, cfg, k, c)
			if e != "" {
				r.Err = e
				continue
			}
			for ci, cr := range c.Criticals {
				co, e2 := criticalObligations(g, fn, k, ci, cr[0], cr[1])
				if e2 != "" {
					r.Err = "contract does not bind: " + e2
					break
				}
				obs = append(obs, co...)
			}
			if r.Err != "" {
				continue
			}
			if c.ReleasesLock {
				obs = append(obs, releasesLockObligations(g, fn, k)...)
			}
			if c.HasErrorsFrom {
				obs = append(obs, errorsFromObligations(prog, g, fn, k, c)...)
			}
			if len(c.Forbids) > 0 {
				obs = append(obs, forbidsObligations(g, fn, k, c)...)
			}
			if c.NoReentrantLock {
				obs = append(obs, reentrantLockObligations(prog, g, fn, k)...)
			}
			if len(c.Handled) > 0 {
				ho, e3 := handledObligations(g, fn, k, c)
				if e3 != "" {
					r.Err = "contract does not bind: " + e3
					continue
				}
				obs = append(obs, ho...)
			}
			if len(c.PrecededBy) > 0 {
				po, e4 := precededByObligations(g, fn, k, c)
				if e4 != "" {
					r.Err = "contract does not bind: " + e4
					continue
				}
				obs = append(obs, po...)
			}
			r.Obligations = append(r.Obligations, obs...)
			all = append(all, obs...)
			continue
		}
		if c.Trusted && c.Sequential {
			// structural obligation only: the body is not verified, but it must not
			// contain a go statement
			g := NewGen(prog, fn, c)
			r.Gen = g
			n := 0
			for _, b := range fn.Blocks {
				for _, in := range b.Instrs {
					if gi, ok := in.(*ssa.Go); ok {
						o := &Obligation{Name: fmt.Sprintf("%s#no-go.%d", ShortKey(k), n), Kind: "no-go", Fn: k, Clause: "sequential: the function starts no goroutine", Pos: g.pos(gi.Pos()), Reach: True, Goal: False, Gen: g}
						r.Obligations = append(r.Obligations, o)
						all = append(all, o)
						n++
					}
				}
			}
			if n == 0 {
				o := &Obligation{Name: ShortKey(k) + "#no-go", Kind: "no-go", Fn: k, Clause: "sequential: the function starts no goroutine", Reach: True, Goal: True, Gen: g}
				r.Obligations = append(r.Obligations, o)
				all = append(all, o)
			}
			continue
		}
		g := NewGen(prog, fn, c)
		func() {
			defer func() {
				if e := recover(); e != nil {
					r.Err = fmt.Sprintf("engine panic: %v", e)
					if os.Getenv("VP_DEBUG") != "" {
						debug.PrintStack()
					}
					if opts.Verbose {
						panic(e)
					}
				}
			}()
			if err := g.Run(); err != nil {
				r.Err = err.Error()
			}
		}()
		r.Gen = g
		if pat := os.Getenv("VP_ABSTRACTED"); pat != "" && strings.Contains(k, pat) {
			for a := range g.Abstracted {
				fmt.Println("ABSTRACTED", ShortKey(k), a)
			}
		}
		if r.Err == "" && len(g.BindErrs) > 0 {
			r.Err = "contract does not bind: " + strings.Join(g.BindErrs, "; ")
		}
		if r.Err == "" && len(g.Unsupported) > 0 && !c.NoSweep {
			r.Err = "outside the verified subset: " + strings.Join(g.Unsupported, "; ")
		}
		if r.Err != "" {
			// a `sequential` function that starts a goroutine is reported as such even
			// when the rest of its contract no longer binds (the calls it names moved
			// into the goroutine)
			if c.Sequential {
				n := 0
				for _, b := range fn.Blocks {
					for _, in := range b.Instrs {
						if gi, ok := in.(*ssa.Go); ok {
							o := &Obligation{Name: fmt.Sprintf("%s#no-go.%d", ShortKey(k), n), Kind: "no-go", Fn: k, Clause: "sequential: the function starts no goroutine", Pos: g.pos(gi.Pos()), Reach: True, Goal: False, Gen: g}
							r.Obligations = append(r.Obligations, o)
							all = append(all, o)
							n++
						}
					}
				}
			}
			continue
		}
		r.Obligations = g.Obls
		if c.ReleasesLock {
			g.Obls = append(g.Obls, releasesLockObligations(g, fn, k)...)
		}
		if len(c.Forbids) > 0 {
			g.Obls = append(g.Obls, forbidsObligations(g, fn, k, c)...)
		}
		if c.NoReentrantLock {
			g.Obls = append(g.Obls, reentrantLockObligations(prog, g, fn, k)...)
		}
		if len(c.Handled) > 0 {
			ho, e3 := handledObligations(g, fn, k, c)
			if e3 != "" {
				r.Err = "contract does not bind: " + e3
				continue
			}
			g.Obls = append(g.Obls, ho...)
		}
		if len(c.PrecededBy) > 0 {
			po, e4 := precededByObligations(g, fn, k, c)
			if e4 != "" {
				r.Err = "contract does not bind: " + e4
				continue
			}
			g.Obls = append(g.Obls, po...)
		}
		if c.HasErrorsFrom {
			g.Obls = append(g.Obls, errorsFromObligations(prog, g, fn, k, c)...)
		}
		if obs, err := exhaustiveObligations(g, g.cfg, k, c); err != "" {
			r.Err = err
			continue
		} else {
			g.Obls = append(g.Obls, obs...)
		}
		for ci, cr := range c.Criticals {
			obs, err := criticalObligations(g, fn, k, ci, cr[0], cr[1])
			if err != "" {
				r.Err = "contract does not bind: " + err
				break
			}
			g.Obls = append(g.Obls, obs...)
		}
		if r.Err != "" {
			continue
		}
		r.Obligations = g.Obls
		// vacuity: preconditions satisfiable; some return reachable
		all = append(all, &Obligation{Name: ShortKey(k) + "#vacuity.pre", Kind: "vacuity", Fn: k, Clause: "requires/assumes are satisfiable", NDefs: g.entryDefs, Reach: True, Goal: True, Gen: g, MustSat: true})
		all = append(all, g.Obls...)
	}
	// canaries: at every return, the negation of the first postcondition must not be
	// provable as well (otherwise the assumptions on that path are contradictory, or
	// the return is dead code): reported as VACUOUS-PATH, listed in evidence
	seenRet := map[string]bool{}
	var canaries []*Obligation
	for _, o := range all {
		if o.Kind != "post" || o.MustSat {
			continue
		}
		i := strings.Index(o.Name, "@ret")
		if i < 0 {
			continue
		}
		key := o.Fn + strings.SplitN(o.Name[i:], "/", 2)[0]
		if seenRet[key] {
			continue
		}
		seenRet[key] = true
		canaries = append(canaries, &Obligation{Name: ShortKey(o.Fn) + "#canary" + strings.SplitN(o.Name[i:], "/", 2)[0], Kind: "canary", Fn: o.Fn, Clause: "path to this return is consistent", Pos: o.Pos, NDefs: o.NDefs, Reach: o.Reach, Goal: False, Gen: o.Gen, Canary: true})
	}
	// the same at every back edge: a loop body whose end is unreachable under the
	// invariants would make every inv-preserved obligation hold vacuously
	seenBE := map[string]int{}
	for _, o := range all {
		if o.Kind != "inv-preserved" || o.MustSat || o.Reach == nil {
			continue
		}
		i := strings.Index(o.Name, "@loop")
		if i < 0 {
			continue
		}
		loop := strings.SplitN(o.Name[i:], "/", 2)[0]
		key := fmt.Sprintf("%s%s#%d", o.Fn, loop, o.Reach.id)
		if _, ok := seenBE[key]; ok {
			continue
		}
		n := 0
		for k := range seenBE {
			if strings.HasPrefix(k, o.Fn+loop+"#") {
				n++
			}
		}
		seenBE[key] = n
		canaries = append(canaries, &Obligation{Name: fmt.Sprintf("%s#canary%s.back%d", ShortKey(o.Fn), loop, n), Kind: "canary", Fn: o.Fn, Clause: "path to this back edge is consistent", Pos: o.Pos, NDefs: o.NDefs, Reach: o.Reach, Goal: False, Gen: o.Gen, Canary: true})
	}
	all = append(all, canaries...)
	if os.Getenv("VP_DEBUG_CANARY") != "" {
		for _, c := range canaries {
			fmt.Println("CANARY", c.Name)
		}
	}
	var re *regexp.Regexp
	if opts.Only != "" {
		re = regexp.MustCompile(opts.Only)
	}
	var todo []*Obligation
	for _, o := range all {
		if re == nil || re.MatchString(o.Name) {
			todo = append(todo, o)
		}
	}
	if opts.KeepSMT != "" {
		os.MkdirAll(opts.KeepSMT, 0o755)
	}
	if opts.Only == "" {
		os.RemoveAll(filepath.Join(opts.OutDir, "replays", prop))
	}
	results := make([]*oblResult, len(todo))
	var wg sync.WaitGroup
	sem := make(chan struct{}, 14)
	for i, o := range todo {
		wg.Add(1)
		go func(i int, o *Obligation) {
			defer wg.Done()
			sem <- struct{}{}
			defer func() { <-sem }()
			results[i] = decide(o, cfg, known, prop, opts)
		}(i, o)
	}
	wg.Wait()

	// report
	exit := 0
	var vacuous []string
	nObl, nDis := 0, 0
	var samples []any
	var slow []any
	var knownLines []string
	solverWins := map[string]int{}
	stageWins := map[string]int{}
	var totalMs, maxMs int64
	replayDir := filepath.Join(opts.OutDir, "replays", prop)
	for _, r := range reports {
		if r.Err != "" {
			exit = 1
			os.MkdirAll(replayDir, 0o755)
			path := filepath.Join(replayDir, sanitize(ShortKey(r.Key))+".bind.json")
			writeJSON(path, map[string]any{"property": prop, "function": ShortKey(r.Key), "obligation": ShortKey(r.Key) + "#bind", "kind": "contract-binding", "reason": r.Err, "solver_output": "none (the obligation could not be generated)"})
			fmt.Printf("FAILED %s#bind: %s\n", ShortKey(r.Key), r.Err)
			fmt.Printf("VIOLATION property=%s replay=%s no-failing-input-found\n", prop, path)
			broken = append(broken, r.Key)
		}
	}
	for _, r := range results {
		if r == nil {
			continue
		}
		o := r.O
		if o.Canary {
			if r.Status == "vacuous" {
				vacuous = append(vacuous, o.Name+" at "+o.Pos)
				fmt.Printf("VACUOUS-PATH %s at %s: the path condition of this return is unsatisfiable (dead code, or contradictory assumptions)\n", o.Name, o.Pos)
			}
			continue
		}
		if o.MustSat {
			if os.Getenv("VP_STAGES") != "" && r.Res != nil && (r.Res.Ms >= 1000 || r.Stage != "") {
				fmt.Printf("STAGE vacuity-guard%s %s %dms\n", r.Stage, o.Name, r.Res.Ms)
			}
			if r.Status != "proved" {
				fmt.Printf("BROKEN property=%s reason=vacuity guard %s: %s\n", prop, o.Name, r.Res.Status)
				exit = 2
			}
			continue
		}
		nObl++
		if r.Res != nil {
			totalMs += r.Res.Ms
			if r.Res.Ms > maxMs {
				maxMs = r.Res.Ms
			}
			if r.Res.Ms >= 2000 {
				slow = append(slow, map[string]any{"obligation": o.Name, "ms": r.Res.Ms, "solver": r.Res.Solver})
				if os.Getenv("VP_SLOW") != "" {
					fmt.Printf("SLOW %s %dms %s\n", o.Name, r.Res.Ms, r.Res.Solver)
				}
			}
		}
		switch r.Status {
		case "proved":
			nDis++
			solverWins[r.Res.Solver]++
			stageWins[stageClass(r.Stage)]++
			if os.Getenv("VP_STAGES") != "" && stageClass(r.Stage) != "ground" {
				fmt.Printf("STAGE %s %s %dms\n", r.Stage, o.Name, r.Res.Ms)
			}
			if len(samples) < 6 {
				samples = append(samples, map[string]any{"obligation": o.Name, "kind": o.Kind, "clause": o.Clause, "pos": o.Pos, "solver": r.Res.Solver, "ms": r.Res.Ms})
			}
		case "known":
			nDis++
			solverWins[r.Res.Solver]++
			for _, k := range r.Findings {
				line := fmt.Sprintf("KNOWN-FINDING: property=%s %s witness=[%s] %s", prop, o.Name, k.Witness, k.Note)
				knownLines = append(knownLines, line)
				fmt.Println(line)
			}
		case "machinery":
			fmt.Printf("BROKEN property=%s reason=%s: %s\n", prop, o.Name, r.Res.Output)
			if exit == 0 {
				exit = 2
			}
		default:
			if exit != 2 {
				exit = 1
			}
			suffix := ""
			if r.Confirmed != "confirmed" {
				suffix = " no-failing-input-found"
			}
			fmt.Printf("FAILED %s [%s] %s (%s) at %s\n", o.Name, r.Res.Status, o.Clause, r.Confirmed, o.Pos)
			fmt.Printf("VIOLATION property=%s replay=%s%s\n", prop, r.Replay, suffix)
		}
	}
	if nObl == 0 && exit == 0 {
		return fail("no obligations generated")
	}
	// stand-alone SMT lemmas (bit-vector facts behind trusted Int-level contracts)
	for _, lr := range runLemmas(opts, cfg) {
		nObl++
		if lr.Status == "unsat" {
			nDis++
			solverWins[lr.Solver]++
			if len(samples) < 8 {
				samples = append(samples, map[string]any{"obligation": "lemma:" + lr.Name, "kind": "smt-lemma", "clause": lr.What, "solver": lr.Solver, "ms": lr.Ms})
			}
		} else {
			os.MkdirAll(replayDir, 0o755)
			path := filepath.Join(replayDir, "lemma-"+sanitize(lr.Name)+".json")
			writeJSON(path, map[string]any{"property": prop, "obligation": "lemma:" + lr.Name, "kind": "smt-lemma", "status": lr.Status, "solver_output": lr.Output})
			fmt.Printf("FAILED lemma:%s [%s] %s\n", lr.Name, lr.Status, lr.What)
			fmt.Printf("VIOLATION property=%s replay=%s no-failing-input-found\n", prop, path)
			if exit != 2 {
				exit = 1
			}
		}
	}
	// bounded stand-ins (executing the real code on a finite space; never counted as proved)
	var boundedEv []any
	if opts.Only == "" {
		for _, br := range runBounded(opts) {
			ev := map[string]any{"name": br.Spec.Name, "bounded": true, "bound": br.Env, "what": br.Spec.What, "result": br.Summary, "seconds": br.Seconds}
			if br.Err != "" {
				fmt.Printf("BROKEN property=%s reason=bounded stand-in %s: %s\n", prop, br.Spec.Name, br.Err)
				if exit == 0 {
					exit = 2
				}
				ev["error"] = br.Err
			} else if len(br.Fails) > 0 {
				os.MkdirAll(replayDir, 0o755)
				path := filepath.Join(replayDir, "bounded-"+sanitize(br.Spec.Name)+".json")
				writeJSON(path, map[string]any{"property": prop, "obligation": "bounded:" + br.Spec.Name, "kind": "bounded-standin", "what": br.Spec.What, "bound": br.Env, "failing_inputs": br.Fails, "summary": br.Summary, "replay": "the failing inputs were produced by executing the real code (go test -overlay " + br.Spec.File + ")"})
				fmt.Printf("FAILED bounded:%s %s first: %s\n", br.Spec.Name, br.Summary, br.Fails[0])
				fmt.Printf("VIOLATION property=%s replay=%s\n", prop, path)
				if exit != 2 {
					exit = 1
				}
				ev["failing_inputs"] = br.Fails
			} else {
				fmt.Printf("bounded stand-in %s: %s (%.1fs)\n", br.Spec.Name, br.Summary, br.Seconds)
			}
			boundedEv = append(boundedEv, ev)
		}
	}
	boundedGlobal = boundedEv
	stageGlobal = stageWins
	vacuousGlobal = vacuous
	fmt.Printf("property %s: %d functions under contract, %d obligations, %d discharged, %d known findings, %.1fs\n", prop, len(reports), nObl, nDis, len(knownLines), time.Since(start).Seconds())

	if !opts.NoEvidence {
		writeEvidence(opts, prog, reports, results, nObl, nDis, samples, knownLines, solverWins, totalMs, maxMs, exit, time.Since(start).Seconds())
	}
	return exit
}

// stageClass groups the stages of decide(): "ground" (quantifier-free after
// goal-directed instantiation), "seeded" (instances plus the residual
// quantifiers, z3-new alone), "split" (per incoming edge / per append case,
// ground or seeded), "race" (full query, all solvers and seeds), "retry".
func stageClass(st string) string {
	switch {
	case strings.HasPrefix(st, "fam"), strings.HasPrefix(st, "ground"):
		return "ground"
	case st == "seeded":
		return "seeded"
	case strings.HasPrefix(st, "retry"):
		return "retry"
	case strings.HasSuffix(st, ":race"), st == "race":
		return "race"
	case strings.HasPrefix(st, "split:"), strings.HasPrefix(st, "race-split:"):
		return "split"
	}
	return "other"
}

func sanitize(s string) string {
	return strings.NewReplacer("/", "_", "#", "-", "@", "-", "$", "-", " ", "_", "*", "x").Replace(s)
}

func writeJSON(path string, v any) {
	b, _ := json.MarshalIndent(v, "", " ")
	os.WriteFile(path, b, 0o644)
}

func decide(o *Obligation, cfg *SolverCfg, known []KnownFinding, prop string, opts *CheckOpts) *oblResult {
	var res *SolveResult
	if o.Canary {
		// goal False: "unsat" means the path condition itself is unsatisfiable
		c0 := *cfg
		c0.CrossCheck = false
		c0.FirstS = 10
		termMu.Lock()
		o.seeded = true
		cs := Script(o.asserts(false), true) // unsliced: a contradiction anywhere on the path counts
		o.seeded = false
		termMu.Unlock()
		if opts.KeepSMT != "" {
			os.WriteFile(filepath.Join(opts.KeepSMT, sanitize(o.Name)+".canary.smt2"), []byte(cs), 0o644)
		}
		r0 := SolveFirstOnly(&c0, cs)
		st := "ok"
		if r0.Status == "unsat" {
			st = "vacuous"
		}
		return &oblResult{O: o, Res: r0, Status: st}
	}
	if !o.MustSat && !cfg.CrossCheck {
		// stage 0: the same, restricted to the heap components the goal mentions
		for lvl := 0; lvl <= 1; lvl++ {
			termMu.Lock()
			o.seeded, o.ground, o.groundLevel, o.famSlice = true, true, lvl, true
			sg := Script(o.asserts(true), true)
			o.seeded, o.ground, o.groundLevel, o.famSlice = false, false, 0, false
			termMu.Unlock()
			if opts.KeepSMT != "" {
				os.WriteFile(filepath.Join(opts.KeepSMT, fmt.Sprintf("%s.fam%d.smt2", sanitize(o.Name), lvl)), []byte(sg), 0o644)
			}
			rg := SolveFirstOnly(cfg, sg)
			if rg.Status == "unsat" {
				rg.Solver = "z3-new"
				return &oblResult{O: o, Res: rg, Status: "proved", Stage: fmt.Sprintf("fam%d", lvl)}
			}
		}
		// stage 0a: goal-directed instances only (no residual user quantifiers),
		// with 0, 1 and 3 rounds of instantiation
		for lvl := 0; lvl <= 2; lvl++ {
			termMu.Lock()
			o.seeded, o.ground, o.groundLevel = true, true, lvl
			sg := Script(o.asserts(true), true)
			o.seeded, o.ground, o.groundLevel = false, false, 0
			termMu.Unlock()
			if opts.KeepSMT != "" {
				os.WriteFile(filepath.Join(opts.KeepSMT, fmt.Sprintf("%s.ground%d.smt2", sanitize(o.Name), lvl)), []byte(sg), 0o644)
			}
			rg := SolveFirstOnly(cfg, sg)
			if rg.Status == "unsat" {
				rg.Solver = "z3-new"
				return &oblResult{O: o, Res: rg, Status: "proved", Stage: fmt.Sprintf("ground%d", lvl)}
			}
		}
		// stage 0b: the same after rewriting with the definitional equalities
		for lvl := 1; lvl <= 2; lvl++ {
			termMu.Lock()
			o.seeded, o.ground, o.groundLevel, o.eqProp = true, true, lvl, true
			sg := Script(o.asserts(true), true)
			o.seeded, o.ground, o.groundLevel, o.eqProp = false, false, 0, false
			termMu.Unlock()
			if opts.KeepSMT != "" {
				os.WriteFile(filepath.Join(opts.KeepSMT, fmt.Sprintf("%s.eqground%d.smt2", sanitize(o.Name), lvl)), []byte(sg), 0o644)
			}
			rg := SolveFirstOnly(cfg, sg)
			if rg.Status == "unsat" {
				rg.Solver = "z3-new"
				return &oblResult{O: o, Res: rg, Status: "proved", Stage: fmt.Sprintf("ground-eq%d", lvl)}
			}
		}
	}
	if !o.MustSat {
		// stage 0: goal-directed instantiation, z3-new only, short limit
		s0 := o.ScriptSeeded()
		if opts.KeepSMT != "" {
			os.WriteFile(filepath.Join(opts.KeepSMT, sanitize(o.Name)+".seeded.smt2"), []byte(s0), 0o644)
		}
		c0 := *cfg
		c0.CrossCheck = false
		c0.TimeoutS = 0
		r0 := SolveFirstOnly(&c0, s0)
		if r0.Status == "unsat" {
			r0.Solver = "z3-new"
			if !cfg.CrossCheck {
				return &oblResult{O: o, Res: r0, Status: "proved", Stage: "seeded"}
			}
		} else if r0.Status != "sat" && !cfg.CrossCheck {
			// at a join block: decide per incoming edge before trying the monolithic query
			if rs := decideSplit(o, cfg); rs != nil {
				return &oblResult{O: o, Res: rs, Status: "proved", Stage: "split:" + rs.Stage}
			}
		}
	}
	script := o.Script()
	if opts.KeepSMT != "" {
		os.WriteFile(filepath.Join(opts.KeepSMT, sanitize(o.Name)+".smt2"), []byte(script), 0o644)
	}
	res = Solve(cfg, script, o.Name)
	r := &oblResult{O: o, Res: res}
	if res.Status == "disagree" || res.Status == "error" {
		r.Status = "machinery"
		return r
	}
	if o.MustSat {
		// the vacuity guard wants a model; only "unsat" says the preconditions are
		// contradictory, so an undecided query is retried with longer limits and
		// other seeds before the guard is reported as not established
		for ri, mult := range []int{3, 8} {
			if res.Status == "sat" || res.Status == "unsat" {
				break
			}
			cfgN := *cfg
			cfgN.TimeoutS *= mult
			cfgN.FirstS *= mult
			cfgN.Seed = cfg.Seed + 100*(ri+1)
			res = Solve(&cfgN, script, fmt.Sprintf("%s+retry%d", o.Name, mult))
			r.Res = res
			r.Stage = fmt.Sprintf("retry%d", mult)
		}
		if res.Status == "sat" {
			r.Status = "proved"
		} else {
			r.Status = "failed"
		}
		return r
	}
	if res.Status == "unsat" {
		r.Status = "proved"
		r.Stage = "race"
		return r
	}
	// path split: decide the obligation once per incoming edge of its join block,
	// with the merged constants replaced by that predecessor's values
	if !o.MustSat && res.Status != "sat" {
		if rs := decideSplit(o, cfg); rs != nil {
			r.Status = "proved"
			r.Res = rs
			r.Stage = "race-split:" + rs.Stage
			return r
		}
	}
	// known findings: prove pre ∧ ¬W1..¬Wn ⇒ O
	var ws []*Term
	var fs []KnownFinding
	for _, k := range known {
		if k.Obligation != o.Name || k.Status != "open" || (k.Property != "" && k.Property != prop) {
			continue
		}
		termMu.Lock()
		w, err := o.Gen.witnessTerm(k.Witness)
		if err == nil {
			w = Not(w)
		}
		termMu.Unlock()
		if err != nil {
			r.Status = "machinery"
			r.Res = &SolveResult{Status: "error", Output: fmt.Sprintf("known finding witness %q does not bind: %v", k.Witness, err)}
			return r
		}
		ws = append(ws, w)
		fs = append(fs, k)
	}
	if len(ws) > 0 {
		res2 := Solve(cfg, o.Script(ws...), o.Name+"+known")
		if res2.Status == "unsat" {
			r.Status = "known"
			r.Res = res2
			r.Findings = fs
			return r
		}
		res = res2
		r.Res = res2
	}
	if res.Status == "sat" {
		r.Status = "failed"
	} else if os.Getenv("VP_TRIAGE") != "" {
		// development aid: no long retries, report the obligation as undecided at once
		r.Status = "undecided"
	} else {
		// Not refuted and not proved: before calling it undecided, retry with three
		// and then eight times the limit, each time with a different base seed and
		// again per incoming edge (a loaded machine, or an unlucky seed on a query
		// with quantifiers left in it, must not turn a proof into an alarm; "unsat"
		// from any seed is a proof, and "sat" from any attempt ends the retries).
		var res3 *SolveResult
		for ri, mult := range []int{3, 8} {
			cfgN := *cfg
			cfgN.TimeoutS *= mult
			cfgN.FirstS *= mult
			cfgN.Seed = cfg.Seed + 100*(ri+1)
			res3 = Solve(&cfgN, o.Script(ws...), fmt.Sprintf("%s+retry%d", o.Name, mult))
			if res3.Status == "unsat" {
				r.Status = "proved"
				r.Res = res3
				r.Stage = fmt.Sprintf("retry%d", mult)
				return r
			}
			if res3.Status == "sat" || cfg.CrossCheck {
				break
			}
			if len(ws) == 0 {
				// per case: the short stages with the base limit, the race with the long one
				cfgS := cfgN
				cfgS.FirstS = cfg.FirstS
				if rs := decideSplit(o, &cfgS); rs != nil {
					r.Status = "proved"
					r.Res = rs
					r.Stage = fmt.Sprintf("retry%d-split:%s", mult, rs.Stage)
					return r
				}
			}
		}
		r.Res = res3
		r.Status = "undecided"
	}
	// replay file
	dir := filepath.Join(opts.OutDir, "replays", prop)
	os.MkdirAll(dir, 0o755)
	path := filepath.Join(dir, sanitize(o.Name)+".json")
	rec := map[string]any{
		"property": prop, "obligation": o.Name, "kind": o.Kind, "function": ShortKey(o.Fn), "clause": o.Clause, "pos": o.Pos,
		"solver": r.Res.Solver, "status": r.Res.Status, "solver_output": r.Res.Output, "per_solver": r.Res.All,
	}
	r.Confirmed = "no-replay"
	if r.Res.Status != "sat" {
		// no model: a hand-written harness for the unit can still demonstrate the failure
		if _, err := os.Stat(filepath.Join(opts.VerifDir, "replay", sanitize(ShortKey(o.Gen.Key))+".go.txt")); err == nil {
			outcome, detail, testSrc := Replay(o, &Model{Vals: map[string]*SExpr{}}, opts)
			r.Confirmed = outcome
			rec["replay_outcome"] = outcome
			rec["replay_detail"] = detail
			if testSrc != "" {
				tp := strings.TrimSuffix(path, ".json") + "_test.go.txt"
				os.WriteFile(tp, []byte(testSrc), 0o644)
				rec["replay_test"] = tp
			}
		}
	}
	if r.Res.Status == "sat" {
		model := ParseModel(r.Res.Output)
		rec["model"] = o.Gen.modelSummary(model)
		outcome, detail, testSrc := Replay(o, model, opts)
		r.Confirmed = outcome
		rec["replay_outcome"] = outcome
		rec["replay_detail"] = detail
		if testSrc != "" {
			tp := strings.TrimSuffix(path, ".json") + "_test.go.txt"
			os.WriteFile(tp, []byte(testSrc), 0o644)
			rec["replay_test"] = tp
		}
	}
	writeJSON(path, rec)
	r.Replay = path
	return r
}

func (g *Gen) witnessTerm(w string) (*Term, error) {
	if w == "" || w == "true" {
		return True, nil
	}
	e, err := ParseExpr(w)
	if err != nil {
		return nil, err
	}
	sc := g.specCtx(g.entry, g.entry, func(name string) (Val, bool) {
		v, ok := g.callRes[name]
		if ok && v.K == VTuple && len(v.F) > 0 {
			return v.F[len(v.F)-1], true // the error result
		}
		return v, ok
	})
	return sc.boolTerm(e)
}

func writeEvidence(opts *CheckOpts, prog *Program, reports []*FnReport, results []*oblResult, nObl, nDis int, samples []any, knownLines []string, wins map[string]int, totalMs, maxMs int64, exit int, wall float64) {
	var fns []string
	assumed := map[string]bool{}
	abstracted := map[string]bool{}
	for _, r := range reports {
		fns = append(fns, ShortKey(r.Key))
		if r.Gen != nil {
			for a := range r.Gen.Assumed {
				assumed[a] = true
			}
			for a := range r.Gen.Abstracted {
				abstracted[ShortKey(r.Key)+": "+a] = true
			}
		}
	}
	var assumptions []string
	for a := range assumed {
		assumptions = append(assumptions, a)
	}
	for a := range abstracted {
		assumptions = append(assumptions, "abstracted: "+a)
	}
	sort.Strings(assumptions)
	assumptions = append([]string{
		"go/packages + go/types + go/ssa (x/tools v0.29.0) translate /repo's source faithfully; the Go toolchain compiles the same source to the same semantics",
		"govc (this VC generator) is sound for the stated subset; mitigated by canaries / must-fail corpus, not eliminated",
		"z3 5.1.0, z3 4.8.12, cvc5 1.0.3 answers",
		"integers: Int encoding with explicit wrap-around (not idealised); floating point not modelled",
		"entry heap is well-formed (typed values in range, references allocated); package-level sentinel errors are distinct, non-nil and never reassigned",
	}, assumptions...)
	byKind := map[string]int{}
	for _, r := range results {
		if r != nil && !r.O.MustSat {
			byKind[r.O.Kind]++
		}
	}
	if samples == nil {
		samples = []any{}
	}
	if knownLines == nil {
		knownLines = []string{}
	}
	ev := Evidence{
		PropertyID: opts.Prop, Tier: opts.Tier, Seed: opts.Seed, Level: "proof",
		Coverage: map[string]any{
			"obligations":              nObl,
			"discharged":               nDis,
			"checker_cmd":              fmt.Sprintf("./vp check %s --tier %s  (govc: go/ssa of /repo with -tags verif -> SMT-LIB -> z3-new|z3|cvc5)", opts.Prop, opts.Tier),
			"trusted_base":             []string{"x/tools go/ssa v0.29.0", "govc VC generator", "z3 5.1.0 / z3 4.8.12 / cvc5 1.0.3", "trusted contracts in /verif/trusted/*.spec (listed under assumptions)"},
			"functions_under_contract": fns,
			"obligations_by_kind":      byKind,
			"solver_wins":              wins,
			"discharged_by_stage":      stageGlobal,
			"solver_ms_total":          totalMs,
			"solver_ms_max":            maxMs,
			"known_findings_reported":  knownLines,
			"samples":                  samples,
			"bounded_standins":         boundedOrEmpty(),
			"vacuous_or_dead_returns":  vacuousOrEmpty(),
		},
		Assumptions: assumptions,
		WallS:       wall,
		Violations:  0,
	}
	if exit == 1 {
		for _, r := range results {
			if r != nil && (r.Status == "failed" || r.Status == "undecided") {
				ev.Violations++
			}
		}
		for _, r := range reports {
			if r.Err != "" {
				ev.Violations++
			}
		}
	}
	dir := filepath.Join(opts.OutDir, "evidence")
	os.MkdirAll(dir, 0o755)
	writeJSON(filepath.Join(dir, opts.Prop+".json"), ev)
}

// Warmup loads every package with contract files once so that export data is in
// the build cache.
func Warmup(repo string) int {
	dirs := contractDirs(repo)
	if len(dirs) == 0 {
		fmt.Println("warmup: no contract files")
		return 0
	}
	if _, err := Load(repo, dirs); err != nil {
		fmt.Println("warmup:", err)
		return 1
	}
	fmt.Printf("warmup: loaded %d packages\n", len(dirs))
	return 0
}

// RunReplayFile re-runs the Go test stored next to a replay record.
func RunReplayFile(path, verifDir, repoDir string) int {
	b, err := os.ReadFile(path)
	if err != nil {
		fmt.Println(err)
		return 2
	}
	var rec map[string]any
	if err := json.Unmarshal(b, &rec); err != nil {
		fmt.Println(err)
		return 2
	}
	fmt.Printf("obligation: %v\nclause: %v\nstatus: %v\nreplay outcome: %v\n", rec["obligation"], rec["clause"], rec["status"], rec["replay_outcome"])
	tp, _ := rec["replay_test"].(string)
	if tp == "" {
		fmt.Printf("no replay test stored; solver output:\n%v\n", rec["solver_output"])
		return 0
	}
	src, err := os.ReadFile(tp)
	if err != nil {
		fmt.Println(err)
		return 2
	}
	fn, _ := rec["function"].(string)
	pkgDir := fn
	if i := strings.LastIndex(fn, "/"); i >= 0 {
		rest := fn[i+1:]
		pkgDir = fn[:i+1] + strings.SplitN(rest, ".", 2)[0]
	} else {
		pkgDir = strings.SplitN(fn, ".", 2)[0]
	}
	out, err := runOverlayTest(repoDir, pkgDir, string(src))
	fmt.Println(out)
	if err != nil {
		return 1
	}
	return 0
}

var boundedGlobal []any
var stageGlobal map[string]int

func boundedOrEmpty() []any {
	if boundedGlobal == nil {
		return []any{}
	}
	return boundedGlobal
}

// ifaceOfKey resolves "pkgpath.Type.Method" to an interface type, if it is one.
func (p *Program) ifaceOfKey(key string) (*types.Named, string, bool) {
	i := strings.LastIndex(key, ".")
	if i < 0 {
		return nil, "", false
	}
	method := key[i+1:]
	rest := key[:i]
	j := strings.LastIndex(rest, ".")
	if j < 0 {
		return nil, "", false
	}
	pkgPath, tname := rest[:j], rest[j+1:]
	for _, pk := range p.Pkgs {
		if pk.PkgPath != pkgPath {
			continue
		}
		if tn, ok := pk.Types.Scope().Lookup(tname).(*types.TypeName); ok {
			if n, ok := tn.Type().(*types.Named); ok {
				if _, isI := n.Underlying().(*types.Interface); isI {
					return n, method, true
				}
			}
		}
	}
	return nil, "", false
}

// implementers lists (function, contract) pairs of methods implementing the interface method.
func (p *Program) implementers(iface *types.Named, method string) []*ssa.Function {
	it := iface.Underlying().(*types.Interface)
	var out []*ssa.Function
	var keys []string
	for k := range p.Funcs {
		keys = append(keys, k)
	}
	sort.Strings(keys)
	for _, k := range keys {
		f := p.Funcs[k]
		if f.Name() != method || f.Signature.Recv() == nil || f.Parent() != nil {
			continue
		}
		rt := f.Signature.Recv().Type()
		if types.Implements(rt, it) || types.Implements(types.NewPointer(rt), it) {
			if p.Contracts[k] != nil {
				out = append(out, f)
			}
		}
	}
	return out
}

// RunRefine generates the refinement obligations of an implementation against the
// interface-level contract: pre_iface ⇒ pre_impl, post_impl ⇒ post_iface, and the
// implementation's frame inside the interface's.
func (g *Gen) RunRefine(ic *Contract, implC *Contract) {
	g.cfg = &CFG{Fn: g.Fn, Loops: map[*ssa.BasicBlock]*Loop{}}
	g.collectDebug()
	for pass := 1; pass <= 4; pass++ {
		g.pass = pass
		nU := len(g.uniOrder)
		g.reset()
		g.refineOnce(ic, implC)
		if pass >= 2 && len(g.uniOrder) == nU {
			break
		}
	}
}

func (g *Gen) refineOnce(ic *Contract, implC *Contract) {
	fn := g.Fn
	st := g.initState()
	g.entry = st.clone()
	g.results = resultNamesOf(fn.Signature, ic)
	if len(fn.Blocks) > 0 {
		g.curBlock = fn.Blocks[0]
	}
	// the interface contract names the receiver "recv" (or its own parameter list)
	names := []string{"recv"}
	sig := fn.Signature
	for i := 0; i < sig.Params().Len(); i++ {
		names = append(names, sig.Params().At(i).Name())
	}
	if len(ic.Params) > 0 {
		copy(names, ic.Params)
	}
	var args []Val
	for i, p := range fn.Params {
		v := g.named(st, p.Name(), p.Type())
		args = append(args, v)
		if i < len(names) {
			g.params[names[i]] = v
		}
		if i == 0 && v.K == VScalar {
			g.assume(Ne(v.T, IntLit(0)))
			g.assume(Eq(App("vp_dyntype", SInt, v.T), typeID(p.Type())))
		}
	}
	sc := g.specCtx(st, st, nil)
	for _, cl := range ic.Requires {
		t, err := sc.boolTerm(cl.E)
		if err != nil {
			g.BindErrs = append(g.BindErrs, fmt.Sprintf("interface requires %q: %v", cl.Text, err))
			continue
		}
		g.assume(t)
	}
	for _, cl := range ic.Assumes {
		t, err := sc.boolTerm(cl.E)
		if err != nil {
			g.BindErrs = append(g.BindErrs, fmt.Sprintf("interface assume %q: %v", cl.Text, err))
			continue
		}
		g.assume(t)
		g.Assumed["assume "+cl.Text+" because "+cl.Why] = true
	}
	g.entry = st.clone()
	g.entryDefs = len(g.Defs)
	implKey := FuncKey(fn)
	res := g.applyContract(st, implC, implKey, g.calleeNames(fn, sig, implC), args, sig, resultType(sig), fn.Pos(), true)
	vars := map[string]Val{}
	for i, n := range names {
		if i < len(args) {
			vars[n] = args[i]
		}
	}
	if res.K == VTuple {
		for i, n := range g.results {
			if i < len(res.F) {
				vars[n] = res.F[i]
			}
		}
	} else if len(g.results) == 1 {
		vars[g.results[0]] = res
		vars["result"] = res
	}
	sc2 := g.specCtxVars(st, g.entry, vars)
	saved := g.C
	g.C = ic
	for i, cl := range ic.Ensures {
		t, err := sc2.boolTerm(cl.E)
		if err != nil {
			g.BindErrs = append(g.BindErrs, fmt.Sprintf("interface ensures %q: %v", cl.Text, err))
			continue
		}
		g.obligeNamed(st, "refines", i, "interface ensures "+cl.Text, fn.Pos(), t)
	}
	if ic.Modifies != nil && !ic.Modifies.Star && !ic.Pure {
		g.frameCheck(st, fn.Pos())
	}
	// what the interface contract promises to preserve, the implementation must
	// promise too (there it is checked against the body)
	if ic.Preserves != nil {
		implModsNothing := implC.Modifies != nil && !implC.Modifies.Star && len(implC.Modifies.Mods) == 0
		for _, m := range ic.Preserves.Mods {
			found := implModsNothing || implC.Pure
			if implC.Preserves != nil {
				for _, im := range implC.Preserves.Mods {
					if ExprString(im) == ExprString(m) {
						found = true
					}
				}
			}
			if !found {
				g.BindErrs = append(g.BindErrs, fmt.Sprintf("interface preserves %s is not promised by the implementation %s", ExprString(m), ShortKey(implKey)))
			}
		}
	}
	g.C = saved
	g.curBlock = nil
}

func resultType(sig *types.Signature) types.Type {
	if sig.Results().Len() == 1 {
		return sig.Results().At(0).Type()
	}
	return sig.Results()
}

// dataCases: case analysis over the in-place/reallocate choice of the append
// calls in the cone of influence of the goal (at most three of them).
func dataCases(o *Obligation) []*mergeCase {
	termMu.Lock()
	defer termMu.Unlock()
	consts := map[string]*Sort{}
	collectSyms(o.asserts(true), consts, map[string]*FunDecl{}, map[*Term]bool{})
	var bs []*Term
	for n, srt := range consts {
		if srt == SBool && strings.Contains(n, "!append.inplace!") {
			bs = append(bs, Const(n, SBool))
		}
	}
	if len(bs) == 0 || len(bs) > 3 {
		return nil
	}
	sort.Slice(bs, func(i, j int) bool { return bs[i].Name < bs[j].Name })
	var out []*mergeCase
	for m := 0; m < 1<<len(bs); m++ {
		sub := map[*Term]*Term{}
		for i, b := range bs {
			if m&(1<<i) != 0 {
				sub[b] = True
			} else {
				sub[b] = False
			}
		}
		out = append(out, &mergeCase{Cond: True, Sub: sub})
	}
	return out
}

func decideSplit(o *Obligation, cfg *SolverCfg) *SolveResult {
	cases := o.Gen.mergeCases[o.Reach]
	if len(cases) < 2 || len(cases) > 6 {
		cases = dataCases(o)
	}
	if len(cases) < 2 {
		return nil
	}
	var total int64
	worst := "ground"
	for ci, mc := range cases {
		var r0 *SolveResult
		for lvl := 0; lvl <= 2; lvl++ {
			termMu.Lock()
			o.caseSub = mc
			o.seeded, o.ground, o.groundLevel = true, true, lvl
			s0 := Script(o.asserts(true), true)
			o.seeded, o.ground, o.groundLevel = false, false, 0
			o.caseSub = nil
			termMu.Unlock()
			if d := os.Getenv("VP_KEEP_SPLIT"); d != "" {
				os.WriteFile(filepath.Join(d, fmt.Sprintf("%s.case%d.ground%d.smt2", sanitize(o.Name), ci, lvl)), []byte(s0), 0o644)
			}
			r0 = SolveFirstOnly(cfg, s0)
			if r0.Status == "unsat" {
				break
			}
		}
		for lvl := 1; lvl <= 2 && r0.Status != "unsat"; lvl++ {
			termMu.Lock()
			o.caseSub = mc
			o.seeded, o.ground, o.groundLevel, o.eqProp = true, true, lvl, true
			s0 := Script(o.asserts(true), true)
			o.seeded, o.ground, o.groundLevel, o.eqProp = false, false, 0, false
			o.caseSub = nil
			termMu.Unlock()
			if d := os.Getenv("VP_KEEP_SPLIT"); d != "" {
				os.WriteFile(filepath.Join(d, fmt.Sprintf("%s.case%d.eqground%d.smt2", sanitize(o.Name), ci, lvl)), []byte(s0), 0o644)
			}
			r0 = SolveFirstOnly(cfg, s0)
		}
		if r0.Status != "unsat" {
			termMu.Lock()
			o.caseSub = mc
			o.seeded = true
			s0 := Script(o.asserts(true), true)
			o.seeded = false
			o.caseSub = nil
			termMu.Unlock()
			if d := os.Getenv("VP_KEEP_SPLIT"); d != "" {
				os.WriteFile(filepath.Join(d, fmt.Sprintf("%s.case%d.seeded.smt2", sanitize(o.Name), ci)), []byte(s0), 0o644)
			}
			r0 = SolveFirstOnly(cfg, s0)
			if r0.Status == "unsat" && worst == "ground" {
				worst = "seeded"
			}
		}
		if r0.Status != "unsat" {
			termMu.Lock()
			o.caseSub = mc
			s1 := Script(o.asserts(true), true)
			o.caseSub = nil
			termMu.Unlock()
			if d := os.Getenv("VP_KEEP_SPLIT"); d != "" {
				os.WriteFile(filepath.Join(d, fmt.Sprintf("%s.case%d.full.smt2", sanitize(o.Name), ci)), []byte(s1), 0o644)
			}
			r0 = Solve(cfg, s1, o.Name+"+split")
			if r0.Status != "unsat" {
				return nil
			}
			worst = "race"
		}
		total += r0.Ms
	}
	return &SolveResult{Status: "unsat", Solver: "z3-new", Ms: total, Output: fmt.Sprintf("unsat (decided by case split, %d cases)", len(cases)), All: map[string]string{"z3-new": "unsat"}, Stage: worst}
}

type lemmaResult struct {
	Name, What, Status, Solver, Output string
	Ms                                 int64
}

// runLemmas discharges the stand-alone SMT-LIB lemma files registered for the property.
func runLemmas(opts *CheckOpts, cfg *SolverCfg) []lemmaResult {
	b, err := os.ReadFile(filepath.Join(opts.VerifDir, "lemmas", "index.json"))
	if err != nil || opts.Only != "" {
		return nil
	}
	var specs []struct {
		Properties []string `json:"properties"`
		Name       string   `json:"name"`
		File       string   `json:"file"`
		What       string   `json:"what"`
	}
	if err := json.Unmarshal(b, &specs); err != nil {
		return []lemmaResult{{Name: "index.json", Status: "error", Output: err.Error()}}
	}
	var out []lemmaResult
	for _, s := range specs {
		use := false
		for _, p := range s.Properties {
			if p == opts.Prop {
				use = true
			}
		}
		if !use {
			continue
		}
		src, err := os.ReadFile(filepath.Join(opts.VerifDir, "lemmas", s.File))
		if err != nil {
			out = append(out, lemmaResult{Name: s.Name, What: s.What, Status: "error", Output: err.Error()})
			continue
		}
		c := *cfg
		c.CrossCheck = true
		c.TimeoutS = 60
		r := Solve(&c, string(src), "lemma:"+s.Name)
		out = append(out, lemmaResult{Name: s.Name, What: s.What, Status: r.Status, Solver: r.Solver, Output: r.Output, Ms: r.Ms})
	}
	return out
}

// typeGroundReads: every ground read of an integer-typed object field holds a
// value of the field's Go type (heap typing invariant). Stated per read that
// occurs in the query, including reads at skolem constants and at instantiation
// terms, for which the generator could not state it earlier.
func (g *Gen) typeGroundReads(asserts []*Term) []*Term {
	seen := map[*Term]bool{}
	added := map[*Term]bool{}
	bmemo := map[*Term]bool{}
	var extra []*Term
	var baseComp func(a *Term) string
	baseComp = func(a *Term) string {
		for a != nil {
			switch a.Op {
			case "store":
				a = a.Args[0]
			case "ite":
				a = a.Args[1]
			case "const":
				n := a.Name
				i := strings.Index(n, "O:")
				if i < 0 {
					return ""
				}
				c := n[i:]
				// strip version suffixes: "!<n>", "@<b>", "@loop<k>"
				if j := strings.LastIndex(c, "@"); j > 0 {
					c = c[:j]
				}
				if j := strings.LastIndex(c, "!"); j > 0 {
					if _, err := fmt.Sscanf(c[j+1:], "%d", new(int)); err == nil {
						c = c[:j]
					}
				}
				return c
			default:
				return ""
			}
		}
		return ""
	}
	var rec func(t *Term)
	rec = func(t *Term) {
		if seen[t] {
			return
		}
		seen[t] = true
		for _, a := range t.Args {
			rec(a)
		}
		if t.Op == "select" && t.S == SInt && t.Args[0].S.Idx == SInt && !added[t] && !containsBound(t, bmemo) {
			if c := baseComp(t.Args[0]); c != "" {
				if ty, ok := g.compType[c]; ok {
					if _, _, isInt := intRange(ty); isInt {
						added[t] = true
						extra = append(extra, inRange(t, ty))
					}
				}
			}
		}
	}
	for _, a := range asserts {
		rec(a)
	}
	extra = append(extra, g.refBoundsOfReads(asserts)...)
	return append(asserts, extra...)
}

// refBoundsOfReads: a reference read from a heap version is no younger than that
// version (every cell of a version holds nil or an object allocated before the
// version was written). For reads through store chains the bound is stated for
// every layer, so that an untouched cell keeps the bound of the old version.
func (g *Gen) refBoundsOfReads(asserts []*Term) []*Term {
	seen := map[*Term]bool{}
	done := map[[3]*Term]bool{}
	bmemo := map[*Term]bool{}
	var out []*Term
	compOf := func(n string) string {
		for _, pre := range []string{"O:", "M:", "E:"} {
			if i := strings.Index(n, pre); i >= 0 {
				c := n[i:]
				if j := strings.LastIndex(c, "@"); j > 0 {
					c = c[:j]
				}
				if j := strings.LastIndex(c, "!"); j > 0 {
					if _, err := fmt.Sscanf(c[j+1:], "%d", new(int)); err == nil {
						c = c[:j]
					}
				}
				return c
			}
		}
		return ""
	}
	var layers func(a *Term, depth int) []*Term
	layers = func(a *Term, depth int) []*Term {
		if depth > 6 {
			return nil
		}
		switch a.Op {
		case "store":
			return append([]*Term{a}, layers(a.Args[0], depth+1)...)
		case "ite":
			return append(layers(a.Args[1], depth+1), layers(a.Args[2], depth+1)...)
		case "const":
			return []*Term{a}
		}
		return nil
	}
	baseName := func(a *Term) string {
		for a != nil {
			switch a.Op {
			case "store":
				a = a.Args[0]
			case "ite":
				a = a.Args[1]
			case "const":
				return a.Name
			default:
				return ""
			}
		}
		return ""
	}
	var rec func(t *Term)
	rec = func(t *Term) {
		if seen[t] {
			return
		}
		seen[t] = true
		for _, a := range t.Args {
			rec(a)
		}
		if t.Op != "select" || t.S != SInt || containsBound(t, bmemo) {
			return
		}
		// one-level (O:) read: select(A, r); two-level (M:val, E:) read: select(select(A, m), k)
		var arr, i1, i2 *Term
		if t.Args[0].Op == "select" && t.Args[0].Args[0].S.K == KArray {
			arr, i1, i2 = t.Args[0].Args[0], t.Args[0].Args[1], t.Args[1]
		} else {
			arr, i1 = t.Args[0], t.Args[1]
		}
		c := compOf(baseName(arr))
		if c == "" || !g.refComps[c] {
			return
		}
		for _, v := range layers(arr, 0) {
			clk, ok := g.heapClk[v]
			if !ok {
				continue
			}
			k := [3]*Term{v, i1, i2}
			if done[k] {
				continue
			}
			done[k] = true
			var cell *Term
			if i2 != nil {
				cell = Select(Select(v, i1), i2)
			} else {
				cell = Select(v, i1)
			}
			// only objects that existed when the version was written are covered
			out = append(out, Implies(And(Le(i1, clk)), And(Le(IntLit(0), cell), Le(cell, clk))))
		}
	}
	for _, a := range asserts {
		rec(a)
	}
	return out
}

var vacuousGlobal []string

func vacuousOrEmpty() []string {
	if vacuousGlobal == nil {
		return []string{}
	}
	return vacuousGlobal
}

var arrConstMemo = map[*Term][]*Term{}

// arrayConsts: the array-sorted constants (heap component versions, fresh rows)
// occurring in t.
func arrayConsts(t *Term) []*Term {
	if r, ok := arrConstMemo[t]; ok {
		return r
	}
	seen := map[*Term]bool{}
	var out []*Term
	var rec func(x *Term)
	rec = func(x *Term) {
		if seen[x] {
			return
		}
		seen[x] = true
		if x.Op == "const" && x.S != nil && x.S.K == KArray {
			out = append(out, x)
		}
		for _, a := range x.Args {
			rec(a)
		}
	}
	rec(t)
	arrConstMemo[t] = out
	return out
}

// PatchEvidenceMutants records the outcome of the must-fail corpus in the evidence
// file written by the thorough run.
func PatchEvidenceMutants(verifDir, prop string, total, killed int, survivors []string) {
	path := filepath.Join(verifDir, "evidence", prop+".json")
	b, err := os.ReadFile(path)
	if err != nil {
		return
	}
	var ev map[string]any
	if json.Unmarshal(b, &ev) != nil {
		return
	}
	cov, _ := ev["coverage"].(map[string]any)
	if cov == nil {
		return
	}
	if survivors == nil {
		survivors = []string{}
	}
	cov["mutants"] = map[string]any{"total": total, "killed": killed, "survivors": survivors, "what": "deliberate property-breaking changes of /verif/selftest/mutants/" + prop + " applied to a scratch copy of /repo; killed = this check reports a violation"}
	writeJSON(path, ev)
}


// criticalObligations: structural obligation of a `critical A .. B` clause. The calls of
// A and B must be unique in the function; every call that releases a mutex
// (sync.Mutex/RWMutex Unlock/RUnlock, not deferred) lying on a control-flow path from the
// call of A to the call of B fails the obligation.
func criticalObligations(g *Gen, fn *ssa.Function, key string, ci int, from, to string) ([]*Obligation, string) {
	type site struct {
		b *ssa.BasicBlock
		i int
		in ssa.Instruction
	}
	calleeName := func(cc *ssa.CallCommon) string {
		if cc.IsInvoke() {
			return cc.Method.Name()
		}
		if f := cc.StaticCallee(); f != nil {
			return f.Name()
		}
		return ""
	}
	var fromS, toS []site
	var unlocks []site
	// name#k: the k-th call of name in block order, where name is called more than once
	ordOf := func(n string) (string, int) {
		if i := strings.LastIndex(n, "#"); i > 0 {
			if k, err := strconv.Atoi(n[i+1:]); err == nil {
				return n[:i], k
			}
		}
		return n, -1
	}
	from, fromK := ordOf(from)
	to, toK := ordOf(to)
	// mapupdate(f): an assignment m[k] = v to the map held in field f counts as a "call"
	mapUpd := func(in ssa.Instruction, name string) bool {
		mu, ok := in.(*ssa.MapUpdate)
		if !ok || !strings.HasPrefix(name, "mapupdate(") || !strings.HasSuffix(name, ")") {
			return false
		}
		return chanFromField(mu.Map, strings.TrimSuffix(strings.TrimPrefix(name, "mapupdate("), ")"))
	}
	for _, b := range fn.Blocks {
		for i, in := range b.Instrs {
			if mapUpd(in, from) {
				fromS = append(fromS, site{b, i, in})
			}
			if mapUpd(in, to) {
				toS = append(toS, site{b, i, in})
			}
			call, ok := in.(*ssa.Call)
			if !ok {
				continue
			}
			n := calleeName(&call.Call)
			if n == from {
				fromS = append(fromS, site{b, i, in})
			}
			if n == to {
				toS = append(toS, site{b, i, in})
			}
			if f := call.Call.StaticCallee(); f != nil && (n == "Unlock" || n == "RUnlock") && f.Pkg != nil && f.Pkg.Pkg.Path() == "sync" {
				unlocks = append(unlocks, site{b, i, in})
			}
		}
	}
	pick := func(ss []site, k int) []site {
		if k >= 0 && k < len(ss) {
			return ss[k : k+1]
		}
		return ss
	}
	fromS, toS = pick(fromS, fromK), pick(toS, toK)
	if len(fromS) != 1 || len(toS) != 1 {
		return nil, fmt.Sprintf("critical %s .. %s: each must be called exactly once (or be given as name#k) in %s (found %d and %d)", from, to, ShortKey(key), len(fromS), len(toS))
	}
	blockReach := func(a, b *ssa.BasicBlock) bool { // b reachable from a through at least one edge
		seen := map[*ssa.BasicBlock]bool{}
		var rec func(x *ssa.BasicBlock) bool
		rec = func(x *ssa.BasicBlock) bool {
			for _, s := range x.Succs {
				if s == b {
					return true
				}
				if !seen[s] {
					seen[s] = true
					if rec(s) {
						return true
					}
				}
			}
			return false
		}
		return rec(a)
	}
	reach := func(a, b site) bool {
		if a.b == b.b && a.i < b.i {
			return true
		}
		return blockReach(a.b, b.b)
	}
	var out []*Obligation
	n := 0
	for _, u := range unlocks {
		if reach(fromS[0], u) && reach(u, toS[0]) {
			out = append(out, &Obligation{Name: fmt.Sprintf("%s#critical.%d.%d", ShortKey(key), ci, n), Kind: "critical", Fn: key, Clause: fmt.Sprintf("critical: the mutex is not released between the call of %s and the call of %s", from, to), Pos: g.pos(u.in.Pos()), Reach: True, Goal: False, Gen: g, NDefs: 0})
			n++
		}
	}
	if n == 0 {
		out = append(out, &Obligation{Name: fmt.Sprintf("%s#critical.%d", ShortKey(key), ci), Kind: "critical", Fn: key, Clause: fmt.Sprintf("critical: the mutex is not released between the call of %s and the call of %s", from, to), Reach: True, Goal: True, Gen: g, NDefs: 0})
	}
	return out, ""
}


// exhaustiveObligations: structural obligations of `loop N exhaustive` clauses — every
// edge that leaves the loop must start at the loop header.
func exhaustiveObligations(g *Gen, cfg *CFG, k string, c *Contract) ([]*Obligation, string) {
	var out []*Obligation
	for _, lo := range c.Exhaustive {
		var L *Loop
		if cfg != nil && lo >= 0 && lo < len(cfg.LoopSeq) {
			L = cfg.LoopSeq[lo]
		}
		if L == nil {
			return nil, fmt.Sprintf("contract does not bind: loop %d exhaustive: no such loop", lo)
		}
		n := 0
		for b := range L.Blocks {
			if b == L.Header {
				continue
			}
			for _, sc := range b.Succs {
				if !L.Blocks[sc] {
					pos := ""
					if len(b.Instrs) > 0 {
						pos = g.pos(b.Instrs[len(b.Instrs)-1].Pos())
					}
					out = append(out, &Obligation{Name: fmt.Sprintf("%s#exhaustive.%d.%d", ShortKey(k), lo, n), Kind: "exhaustive", Fn: k, Clause: fmt.Sprintf("loop %d exhaustive: the loop is left only through its header condition", lo), Pos: pos, Reach: True, Goal: False, Gen: g})
					n++
				}
			}
		}
		if n == 0 {
			out = append(out, &Obligation{Name: fmt.Sprintf("%s#exhaustive.%d", ShortKey(k), lo), Kind: "exhaustive", Fn: k, Clause: fmt.Sprintf("loop %d exhaustive: the loop is left only through its header condition", lo), Reach: True, Goal: True, Gen: g})
		}
	}
	return out, ""
}


// errorsFromObligations: structural obligation of an `errorsfrom` clause. Every error
// operand of every return statement is traced back through phis, local cells and the
// wrapping functions of pkg/errors and multierr; it must end in nil, in the result of a
// call of a named callee, or in the result of a callee that has an errorsfrom clause of
// its own. Anything else (a package-level error value, errors.New, fmt.Errorf, another
// call) fails the obligation at that return.
func errorsFromObligations(prog *Program, g *Gen, fn *ssa.Function, key string, c *Contract) []*Obligation {
	allowed := map[string]bool{}
	for _, n := range c.ErrorsFrom {
		allowed[n] = true
	}
	isErr := func(t types.Type) bool { return isErrorType(t) }
	wrappers := map[string]bool{"Wrap": true, "Wrapf": true, "WithMessage": true, "WithMessagef": true, "WithStack": true, "Combine": true, "Append": true}
	var bad func(v ssa.Value, seen map[ssa.Value]bool) string
	callOK := func(cc *ssa.CallCommon, seen map[ssa.Value]bool) string {
		name := ""
		if cc.IsInvoke() {
			name = cc.Method.Name()
		} else if f := cc.StaticCallee(); f != nil {
			name = f.Name()
			if f.Pkg != nil && (f.Pkg.Pkg.Path() == "github.com/pkg/errors" || f.Pkg.Pkg.Path() == "go.uber.org/multierr") && wrappers[name] {
				for _, a := range cc.Args {
					if isErr(a.Type()) {
						if r := bad(a, seen); r != "" {
							return r
						}
					}
					// variadic errors (multierr.Combine): a slice built in place
					if sl, ok := a.(*ssa.Slice); ok {
						if al, ok := sl.X.(*ssa.Alloc); ok {
							for _, ref := range *al.Referrers() {
								if ia, ok := ref.(*ssa.IndexAddr); ok {
									for _, r2 := range *ia.Referrers() {
										if st, ok := r2.(*ssa.Store); ok && isErr(st.Val.Type()) {
											if r := bad(st.Val, seen); r != "" {
												return r
											}
										}
									}
								}
							}
						}
					}
				}
				return ""
			}
			k2 := FuncKey(f)
			if f.Origin() != nil {
				k2 = FuncKey(f.Origin())
			}
			if cc2 := prog.ContractFor(k2); cc2 != nil && cc2.HasErrorsFrom {
				return ""
			}
		}
		if allowed[name] {
			return ""
		}
		if name == "" {
			return "a call through a function value"
		}
		return "a call of " + name
	}
	bad = func(v ssa.Value, seen map[ssa.Value]bool) string {
		if seen[v] {
			return ""
		}
		seen[v] = true
		switch x := v.(type) {
		case *ssa.Const:
			if x.Value == nil {
				return ""
			}
			return "a constant"
		case *ssa.Phi:
			for _, e := range x.Edges {
				if r := bad(e, seen); r != "" {
					return r
				}
			}
			return ""
		case *ssa.Call:
			return callOK(&x.Call, seen)
		case *ssa.Extract:
			if call, ok := x.Tuple.(*ssa.Call); ok {
				return callOK(&call.Call, seen)
			}
			return "a value of unknown origin"
		case *ssa.MakeInterface:
			return "a new error value"
		case *ssa.ChangeInterface:
			return bad(x.X, seen)
		case *ssa.UnOp:
			if x.Op == token.MUL {
				if al, ok := x.X.(*ssa.Alloc); ok && al.Referrers() != nil {
					for _, ref := range *al.Referrers() {
						if st, ok := ref.(*ssa.Store); ok && st.Addr == al {
							if r := bad(st.Val, seen); r != "" {
								return r
							}
						}
					}
					return ""
				}
				if gl, ok := x.X.(*ssa.Global); ok {
					return "the package-level value " + gl.Name()
				}
			}
			return "a value of unknown origin"
		case *ssa.Parameter:
			return "the parameter " + x.Name()
		}
		return "a value of unknown origin"
	}
	var out []*Obligation
	n := 0
	for _, b := range fn.Blocks {
		for _, in := range b.Instrs {
			ret, ok := in.(*ssa.Return)
			if !ok {
				continue
			}
			for _, rv := range ret.Results {
				if !isErr(rv.Type()) {
					continue
				}
				if why := bad(rv, map[ssa.Value]bool{}); why != "" {
					out = append(out, &Obligation{Name: fmt.Sprintf("%s#errorsfrom.%d", ShortKey(key), n), Kind: "errorsfrom", Fn: key, Clause: "errorsfrom " + strings.Join(c.ErrorsFrom, ", ") + ": the error returned here comes from " + why, Pos: g.pos(ret.Pos()), Reach: True, Goal: False, Gen: g})
					n++
				}
			}
		}
	}
	if n == 0 {
		out = append(out, &Obligation{Name: ShortKey(key) + "#errorsfrom", Kind: "errorsfrom", Fn: key, Clause: "errorsfrom " + strings.Join(c.ErrorsFrom, ", ") + ": every returned error originates in a named callee", Reach: True, Goal: True, Gen: g})
	}
	return out
}


// releasesLockObligations: structural obligation of `releaseslock`. A forward may-analysis
// of "a write lock taken by a plain Lock() call is held": Lock sets it, Unlock clears it
// (sync.Mutex / sync.RWMutex, static callees only; deferred unlocks clear it for every
// return). A return statement reachable with the lock possibly held fails the obligation.
func releasesLockObligations(g *Gen, fn *ssa.Function, key string) []*Obligation {
	isSync := func(call *ssa.CallCommon, names ...string) bool {
		f := call.StaticCallee()
		if f == nil || f.Pkg == nil || f.Pkg.Pkg.Path() != "sync" {
			return false
		}
		for _, n := range names {
			if f.Name() == n {
				return true
			}
		}
		return false
	}
	deferredUnlock := false
	for _, b := range fn.Blocks {
		for _, in := range b.Instrs {
			if d, ok := in.(*ssa.Defer); ok && isSync(&d.Call, "Unlock") {
				deferredUnlock = true
			}
		}
	}
	held := map[*ssa.BasicBlock]bool{} // may be held at block entry
	changed := true
	exit := func(b *ssa.BasicBlock, in bool) bool {
		h := in
		for _, ins := range b.Instrs {
			if c, ok := ins.(*ssa.Call); ok {
				if isSync(&c.Call, "Lock") {
					h = true
				} else if isSync(&c.Call, "Unlock") {
					h = false
				}
			}
		}
		return h
	}
	for changed {
		changed = false
		for _, b := range fn.Blocks {
			out := exit(b, held[b])
			if out {
				for _, sc := range b.Succs {
					if !held[sc] {
						held[sc] = true
						changed = true
					}
				}
			}
		}
	}
	var out []*Obligation
	n := 0
	if !deferredUnlock {
		for _, b := range fn.Blocks {
			if len(b.Instrs) == 0 {
				continue
			}
			ret, ok := b.Instrs[len(b.Instrs)-1].(*ssa.Return)
			if !ok {
				continue
			}
			if exit(b, held[b]) {
				out = append(out, &Obligation{Name: fmt.Sprintf("%s#releaseslock.%d", ShortKey(key), n), Kind: "releaseslock", Fn: key, Clause: "releaseslock: this return can be reached with the mutex still held", Pos: g.pos(ret.Pos()), Reach: True, Goal: False, Gen: g})
				n++
			}
		}
	}
	if n == 0 {
		out = append(out, &Obligation{Name: ShortKey(key) + "#releaseslock", Kind: "releaseslock", Fn: key, Clause: "releaseslock: no return with the mutex still held", Reach: True, Goal: True, Gen: g})
	}
	return out
}


// forbidsObligations: structural obligation of `forbids A, B`: no call (static, invoke,
// go or defer) of a callee with one of these names in the function body.
func forbidsObligations(g *Gen, fn *ssa.Function, key string, c *Contract) []*Obligation {
	bad := map[string]bool{}
	for _, n := range c.Forbids {
		bad[n] = true
	}
	var out []*Obligation
	n := 0
	for _, b := range fn.Blocks {
		for _, in := range b.Instrs {
			ci, ok := in.(ssa.CallInstruction)
			if !ok {
				continue
			}
			cc := ci.Common()
			name := ""
			if cc.IsInvoke() {
				name = cc.Method.Name()
			} else if f := cc.StaticCallee(); f != nil {
				name = f.Name()
			}
			if bad[name] {
				out = append(out, &Obligation{Name: fmt.Sprintf("%s#forbids.%d", ShortKey(key), n), Kind: "forbids", Fn: key, Clause: "forbids " + strings.Join(c.Forbids, ", ") + ": call of " + name, Pos: g.pos(in.Pos()), Reach: True, Goal: False, Gen: g})
				n++
			}
		}
	}
	if n == 0 {
		out = append(out, &Obligation{Name: ShortKey(key) + "#forbids", Kind: "forbids", Fn: key, Clause: "forbids " + strings.Join(c.Forbids, ", "), Reach: True, Goal: True, Gen: g})
	}
	return out
}


func syncCall(call *ssa.CallCommon, names ...string) bool {
	f := call.StaticCallee()
	if f == nil || f.Pkg == nil || f.Pkg.Pkg.Path() != "sync" {
		return false
	}
	for _, nm := range names {
		if f.Name() == nm {
			return true
		}
	}
	return false
}

// reachedFromReceiver: v is the receiver parameter of fn or the address of a field of it.
func reachedFromReceiver(fn *ssa.Function, v ssa.Value) bool {
	if len(fn.Params) == 0 || fn.Signature.Recv() == nil {
		return false
	}
	for i := 0; i < 6; i++ {
		switch x := v.(type) {
		case *ssa.FieldAddr:
			v = x.X
			continue
		case *ssa.Parameter:
			return x == fn.Params[0]
		}
		break
	}
	return false
}

// locksOwnMutex: the method calls Lock on a sync mutex reached from its own receiver.
func locksOwnMutex(fn *ssa.Function) bool {
	for _, b := range fn.Blocks {
		for _, in := range b.Instrs {
			if c, ok := in.(*ssa.Call); ok && syncCall(&c.Call, "Lock") && len(c.Call.Args) > 0 && reachedFromReceiver(fn, c.Call.Args[0]) {
				return true
			}
		}
	}
	return false
}

// reentrantLockObligations: structural obligation of `noreentrantlock`. A may-analysis of
// "the mutex of the receiver is held" (Lock on a mutex reached from the receiver sets it;
// Unlock clears it unless the Unlock is deferred); every static call, made while it may be
// held, of a method that locks its own receiver's mutex, on the same receiver, fails it.
func reentrantLockObligations(prog *Program, g *Gen, fn *ssa.Function, key string) []*Obligation {
	var out []*Obligation
	if fn.Signature.Recv() == nil || len(fn.Params) == 0 {
		return out
	}
	deferredUnlock := false
	for _, b := range fn.Blocks {
		for _, in := range b.Instrs {
			if d, ok := in.(*ssa.Defer); ok && syncCall(&d.Call, "Unlock") {
				deferredUnlock = true
			}
		}
	}
	held := map[*ssa.BasicBlock]bool{}
	step := func(b *ssa.BasicBlock, h bool, visit func(in ssa.Instruction, held bool)) bool {
		for _, in := range b.Instrs {
			if visit != nil {
				visit(in, h)
			}
			if c, ok := in.(*ssa.Call); ok {
				if syncCall(&c.Call, "Lock") && len(c.Call.Args) > 0 && reachedFromReceiver(fn, c.Call.Args[0]) {
					h = true
				} else if syncCall(&c.Call, "Unlock") && !deferredUnlock {
					h = false
				}
			}
		}
		return h
	}
	for changed := true; changed; {
		changed = false
		for _, b := range fn.Blocks {
			if step(b, held[b], nil) {
				for _, sc := range b.Succs {
					if !held[sc] {
						held[sc] = true
						changed = true
					}
				}
			}
		}
	}
	n := 0
	for _, b := range fn.Blocks {
		step(b, held[b], func(in ssa.Instruction, h bool) {
			c, ok := in.(*ssa.Call)
			if !ok || !h {
				return
			}
			callee := c.Call.StaticCallee()
			if callee == nil || len(c.Call.Args) == 0 || !locksOwnMutex(callee) {
				return
			}
			if p, ok := c.Call.Args[0].(*ssa.Parameter); ok && p == fn.Params[0] {
				out = append(out, &Obligation{Name: fmt.Sprintf("%s#noreentrantlock.%d", ShortKey(key), n), Kind: "noreentrantlock", Fn: key, Clause: "noreentrantlock: call of " + callee.Name() + ", which takes the receiver's mutex, while the mutex may be held", Pos: g.pos(in.Pos()), Reach: True, Goal: False, Gen: g})
				n++
			}
		})
	}
	if n == 0 {
		out = append(out, &Obligation{Name: ShortKey(key) + "#noreentrantlock", Kind: "noreentrantlock", Fn: key, Clause: "noreentrantlock: no call of a locking method of the receiver while its mutex may be held", Reach: True, Goal: True, Gen: g})
	}
	return out
}


// chanFromField: v is a channel loaded from a struct field called name.
func chanFromField(v ssa.Value, name string) bool {
	if strings.HasSuffix(name, "()") {
		// the channel a method or function of that name returned
		m := strings.TrimSuffix(name, "()")
		for i := 0; i < 4; i++ {
			switch x := v.(type) {
			case *ssa.ChangeType:
				v = x.X
				continue
			case *ssa.Call:
				if x.Call.IsInvoke() {
					return x.Call.Method.Name() == m
				}
				if f := x.Call.StaticCallee(); f != nil {
					return f.Name() == m
				}
			}
			break
		}
		return false
	}
	for i := 0; i < 4; i++ {
		switch x := v.(type) {
		case *ssa.ChangeType:
			v = x.X
			continue
		case *ssa.UnOp:
			if x.Op != token.MUL {
				return false
			}
			fa, ok := x.X.(*ssa.FieldAddr)
			if !ok {
				return false
			}
			st, ok := deref(fa.X.Type()).Underlying().(*types.Struct)
			return ok && fa.Field < st.NumFields() && st.Field(fa.Field).Name() == name
		case *ssa.Field:
			st, ok := x.X.Type().Underlying().(*types.Struct)
			return ok && x.Field < st.NumFields() && st.Field(x.Field).Name() == name
		}
		break
	}
	return false
}

func deref(t types.Type) types.Type {
	if p, ok := t.Underlying().(*types.Pointer); ok {
		return p.Elem()
	}
	return t
}

// receivesFromField: the instruction takes a value from a channel held in field name;
// returns the tuple index of the value when the instruction yields a tuple (-1: the
// instruction's own value).
func receivesFromField(in ssa.Instruction, name string) (bool, int) {
	switch x := in.(type) {
	case *ssa.UnOp:
		if x.Op == token.ARROW && chanFromField(x.X, name) {
			if x.CommaOk {
				return true, 0
			}
			return true, -1
		}
	case *ssa.Select:
		ri := 0
		for _, s := range x.States {
			if s.Dir != types.RecvOnly {
				continue
			}
			if chanFromField(s.Chan, name) {
				return true, 2 + ri
			}
			ri++
		}
	}
	return false, 0
}

func derivedFrom(v, src ssa.Value, depth int) bool {
	if v == src {
		return true
	}
	if depth > 6 {
		return false
	}
	switch x := v.(type) {
	case *ssa.Phi:
		for _, e := range x.Edges {
			if derivedFrom(e, src, depth+1) {
				return true
			}
		}
	case *ssa.ChangeInterface:
		return derivedFrom(x.X, src, depth+1)
	case *ssa.MakeInterface:
		return derivedFrom(x.X, src, depth+1)
	case *ssa.ChangeType:
		return derivedFrom(x.X, src, depth+1)
	case *ssa.TypeAssert:
		return derivedFrom(x.X, src, depth+1)
	case *ssa.Extract:
		return derivedFrom(x.Tuple, src, depth+1)
	case *ssa.Alloc:
		// a struct built around the value: some field of the fresh object is assigned it
		if refs := x.Referrers(); refs != nil {
			for _, r := range *refs {
				fa, ok := r.(*ssa.FieldAddr)
				if !ok || fa.Referrers() == nil {
					continue
				}
				for _, r2 := range *fa.Referrers() {
					if st, ok := r2.(*ssa.Store); ok && st.Addr == fa && derivedFrom(st.Val, src, depth+1) {
						return true
					}
				}
			}
		}
	}
	return false
}

// handledObligations: structural obligations of `received F handledby A, B` clauses. For
// every instruction that takes a value from the channel in field F, every control-flow
// path from the point where the value is available must pass a call of one of the named
// callees that has the value among its arguments before it reaches a return or another
// receive from that channel. A receive whose value is discarded fails outright.
func handledObligations(g *Gen, fn *ssa.Function, key string, c *Contract) ([]*Obligation, string) {
	var out []*Obligation
	for hi, hc := range c.Handled {
		by := map[string]bool{}
		for _, n := range hc.By {
			by[n] = true
		}
		clause := fmt.Sprintf("received %s handledby %s", hc.Field, strings.Join(hc.By, ", "))
		nrecv := 0
		for _, b := range fn.Blocks {
			for _, in := range b.Instrs {
				ok, ti := receivesFromField(in, hc.Field)
				if !ok {
					continue
				}
				name := fmt.Sprintf("%s#handled.%d/%d", ShortKey(key), hi, nrecv)
				nrecv++
				// where the received value becomes available
				var val ssa.Value
				var start ssa.Instruction
				if ti < 0 {
					val = in.(ssa.Value)
					start = in
				} else {
					for _, r := range *in.(ssa.Value).Referrers() {
						if e, ok := r.(*ssa.Extract); ok && e.Index == ti {
							val, start = e, e
						}
					}
				}
				fail := func(why string, at token.Pos) {
					out = append(out, &Obligation{Name: name, Kind: "handled", Fn: key, Clause: clause + ": " + why, Pos: g.pos(at), Reach: True, Goal: False, Gen: g})
				}
				// the comma-ok flag of the receive, if the code asks for it: paths on which
				// it is false (channel closed, nothing received) have nothing to hand on
				var okFlag ssa.Value
				if ti >= 0 {
					oi := 1
					for _, r := range *in.(ssa.Value).Referrers() {
						if e, ok := r.(*ssa.Extract); ok && e.Index == oi {
							okFlag = e
						}
					}
				}
				if val == nil {
					fail("the received value is discarded", in.Pos())
					continue
				}
				// forward search for a path that escapes unhandled
				type pt struct {
					b *ssa.BasicBlock
					i int
				}
				si := -1
				for i, x := range start.Block().Instrs {
					if x == start {
						si = i
					}
				}
				seen := map[*ssa.BasicBlock]bool{}
				work := []pt{{start.Block(), si + 1}}
				bad := ""
				var badPos token.Pos
				for len(work) > 0 && bad == "" {
					p := work[len(work)-1]
					work = work[:len(work)-1]
					handled := false
					for i := p.i; i < len(p.b.Instrs) && !handled && bad == ""; i++ {
						x := p.b.Instrs[i]
						if ci, ok := x.(ssa.CallInstruction); ok {
							cc := ci.Common()
							cn := ""
							if cc.IsInvoke() {
								cn = cc.Method.Name()
							} else if f := cc.StaticCallee(); f != nil {
								cn = f.Name()
							}
							if by[cn] {
								for _, a := range cc.Args {
									if derivedFrom(a, val, 0) {
										handled = true
									}
								}
							}
							if handled {
								if _, isDefer := x.(*ssa.Defer); isDefer || isGo(x) {
									handled = true
								}
								break
							}
						}
						if _, ok := x.(*ssa.Return); ok {
							bad, badPos = "a path returns without handing the value on", x.Pos()
							if badPos == token.NoPos {
								badPos = in.Pos()
							}
						}
						if again, _ := receivesFromField(x, hc.Field); again {
							bad, badPos = "a path takes the next value without handing this one on", x.Pos()
							if badPos == token.NoPos {
								badPos = in.Pos()
							}
						}
					}
					if handled || bad != "" {
						continue
					}
					succs := p.b.Succs
					if okFlag != nil && len(p.b.Instrs) > 0 {
						if iff, ok := p.b.Instrs[len(p.b.Instrs)-1].(*ssa.If); ok && len(succs) == 2 {
							if iff.Cond == okFlag {
								succs = succs[:1]
							} else if u, ok := iff.Cond.(*ssa.UnOp); ok && u.Op == token.NOT && u.X == okFlag {
								succs = succs[1:]
							}
						}
					}
					for _, s := range succs {
						if !seen[s] {
							seen[s] = true
							work = append(work, pt{s, 0})
						}
					}
				}
				if bad != "" {
					fail(bad, badPos)
				} else {
					out = append(out, &Obligation{Name: name, Kind: "handled", Fn: key, Clause: clause, Pos: g.pos(in.Pos()), Reach: True, Goal: True, Gen: g})
				}
			}
		}
		if nrecv == 0 {
			return nil, fmt.Sprintf("received %s: the function takes nothing from a channel in a field of that name", hc.Field)
		}
	}
	return out, ""
}

func isGo(in ssa.Instruction) bool { _, ok := in.(*ssa.Go); return ok }


func calleeName(cc *ssa.CallCommon) string {
	if cc.IsInvoke() {
		return cc.Method.Name()
	}
	if f := cc.StaticCallee(); f != nil {
		return f.Name()
	}
	if b, ok := cc.Value.(*ssa.Builtin); ok {
		return b.Name()
	}
	return ""
}

// precededByObligations: structural obligations of `precededby A B` clauses: every
// (non-deferred) call of A is dominated by a call of B — B is called earlier in the same
// block, or in a block that dominates the block of A.
func precededByObligations(g *Gen, fn *ssa.Function, key string, c *Contract) ([]*Obligation, string) {
	var out []*Obligation
	for pi, pb := range c.PrecededBy {
		clause := fmt.Sprintf("precededby %s %s", pb[0], pb[1])
		type site struct {
			b *ssa.BasicBlock
			i int
		}
		var bs []site
		for _, b := range fn.Blocks {
			for i, in := range b.Instrs {
				if ci, ok := in.(*ssa.Call); ok && calleeName(&ci.Call) == pb[1] {
					bs = append(bs, site{b, i})
				}
			}
		}
		n := 0
		for _, b := range fn.Blocks {
			for i, in := range b.Instrs {
				ci, ok := in.(*ssa.Call)
				if !ok || calleeName(&ci.Call) != pb[0] {
					continue
				}
				name := fmt.Sprintf("%s#precededby.%d/%d", ShortKey(key), pi, n)
				n++
				good := false
				for _, s := range bs {
					if (s.b == b && s.i < i) || (s.b != b && s.b.Dominates(b)) {
						good = true
					}
				}
				goal := True
				cl := clause
				if !good {
					goal = False
					cl = clause + ": a call of " + pb[0] + " can be reached without a call of " + pb[1]
				}
				out = append(out, &Obligation{Name: name, Kind: "precededby", Fn: key, Clause: cl, Pos: g.pos(in.Pos()), Reach: True, Goal: goal, Gen: g})
			}
		}
		if n == 0 {
			return nil, fmt.Sprintf("precededby %s %s: the function does not call %s", pb[0], pb[1], pb[0])
		}
	}
	return out, ""
}
