package eng

import (
	"sort"
	"strings"
)

// Strict instantiation candidates: a ground read select(A', g) instantiates a
// quantified read select(A, p(i)) only when A' and A denote the same row of the
// same heap component (any heap version), instead of merely having the same sort.
// Two-level patterns select(select(H, q(r)), p(i)) bind (r, i) jointly.

var strictInst bool // guarded by termMu

type gsel struct{ arr, idx *Term }

var famMemo = map[*Term]string{}

// heapFamily names the heap component an array term is a version of.
func heapFamily(h *Term) string {
	if v, ok := famMemo[h]; ok {
		return v
	}
	var r string
	switch h.Op {
	case "store":
		r = heapFamily(h.Args[0])
	case "ite":
		r = heapFamily(h.Args[1])
	case "const":
		n := h.Name
		if strings.HasPrefix(n, "H0:") {
			n = n[3:]
		} else if i := strings.Index(n, "!H:"); i >= 0 {
			n = n[i+3:]
		} else {
			n = "c:" + n
		}
		if i := strings.LastIndex(n, "@"); i >= 0 && !strings.HasPrefix(n, "c:") {
			n = n[:i]
		}
		r = n
	default:
		r = "t:" + itoa(h.id)
	}
	famMemo[h] = r
	return r
}

func itoa(n int) string {
	if n == 0 {
		return "0"
	}
	neg := n < 0
	if neg {
		n = -n
	}
	var b [20]byte
	i := len(b)
	for n > 0 {
		i--
		b[i] = byte('0' + n%10)
		n /= 10
	}
	if neg {
		i--
		b[i] = '-'
	}
	return string(b[i:])
}

// rowKey identifies the array read by a select, up to heap versions.
func rowKey(a *Term) string {
	if a.Op == "select" && a.Args[0].S.K == KArray {
		return heapFamily(a.Args[0]) + "|" + itoa(a.Args[1].id)
	}
	return heapFamily(a)
}

// boundsOf: the bound variables (of the given set) occurring in t.
func boundsOf(t *Term, set map[*Term]bool, memo map[*Term][]*Term) []*Term {
	if r, ok := memo[t]; ok {
		return r
	}
	var out []*Term
	if t.Op == "bound" {
		if set[t] {
			out = []*Term{t}
		} else {
			out = []*Term{nil} // a foreign bound variable: poison
		}
	} else {
		seen := map[*Term]bool{}
		for _, a := range t.Args {
			for _, b := range boundsOf(a, set, memo) {
				if !seen[b] {
					seen[b] = true
					out = append(out, b)
				}
			}
		}
	}
	memo[t] = out
	return out
}

func poisoned(bs []*Term) bool {
	for _, b := range bs {
		if b == nil {
			return true
		}
	}
	return false
}

// strictTuples computes instantiation tuples for q from the ground reads.
func strictTuples(q *Term, sels []gsel, byKey map[string][]gsel, ground map[string]map[*Term]bool, capN int) [][]*Term {
	set := map[*Term]bool{}
	pos := map[*Term]int{}
	for i, b := range q.Bound {
		set[b] = true
		pos[b] = i
	}
	bmemo := map[*Term][]*Term{}
	// pattern terms
	var pats []*Term
	if len(q.Pats) > 0 {
		for _, p := range q.Pats {
			if p.Op == "select" {
				pats = append(pats, p)
			}
		}
	} else {
		seen := map[*Term]bool{}
		var rec func(t *Term)
		rec = func(t *Term) {
			if seen[t] {
				return
			}
			seen[t] = true
			if t.Op == "select" || t.Op == "store" {
				bs := boundsOf(t.Args[1], set, bmemo)
				ba := boundsOf(t.Args[0], set, bmemo)
				if (len(bs) > 0 || len(ba) > 0) && !poisoned(bs) && !poisoned(ba) {
					pats = append(pats, t)
				}
			}
			for _, a := range t.Args {
				rec(a)
			}
		}
		rec(q.Args[0])
	}
	perVar := make([]map[*Term]bool, len(q.Bound))
	for i := range perVar {
		perVar[i] = map[*Term]bool{}
	}
	var full [][]*Term
	fullSeen := map[string]bool{}
	joint := false
	solve1 := func(p, g *Term, bind map[*Term]*Term) bool {
		bs := boundsOf(p, set, bmemo)
		if poisoned(bs) {
			return false
		}
		switch len(bs) {
		case 0:
			return p == g
		case 1:
			x := solveFor(p, bs[0], g)
			if x == nil {
				return false
			}
			if old, ok := bind[bs[0]]; ok && old != x {
				return false
			}
			bind[bs[0]] = x
			return true
		}
		return false
	}
	for _, P := range pats {
		A, p := P.Args[0], P.Args[1]
		ba := boundsOf(A, set, bmemo)
		bp := boundsOf(p, set, bmemo)
		if poisoned(ba) || poisoned(bp) {
			continue
		}
		nv := map[*Term]bool{}
		for _, b := range ba {
			nv[b] = true
		}
		for _, b := range bp {
			nv[b] = true
		}
		if len(nv) == len(q.Bound) && len(q.Bound) > 1 {
			joint = true
		}
		var cands []gsel
		twoLevel := false
		switch {
		case len(ba) == 0:
			cands = byKey[rowKey(A)]
		case A.Op == "select" && len(boundsOf(A.Args[0], set, bmemo)) == 0:
			twoLevel = true
			cands = byKey["2:"+heapFamily(A.Args[0])]
		default:
			continue
		}
		for _, G := range cands {
			bind := map[*Term]*Term{}
			if twoLevel {
				if G.arr.Op != "select" || !solve1(A.Args[1], G.arr.Args[1], bind) {
					continue
				}
			}
			if !solve1(p, G.idx, bind) {
				continue
			}
			for v, x := range bind {
				perVar[pos[v]][x] = true
			}
			if len(bind) == len(q.Bound) {
				tup := make([]*Term, len(q.Bound))
				k := ""
				for v, x := range bind {
					tup[pos[v]] = x
				}
				for _, x := range tup {
					k += itoa(x.id) + ","
				}
				if !fullSeen[k] {
					fullSeen[k] = true
					full = append(full, tup)
				}
			}
		}
	}
	// arguments of uninterpreted functions
	for bi, bv := range q.Bound {
		for _, ip := range indexPatterns(q.Args[0], bv) {
			if !strings.Contains(ip.key, "/") {
				continue
			}
			for t := range ground[ip.key] {
				if x := solveFor(ip.p, bv, t); x != nil {
					perVar[bi][x] = true
				}
			}
		}
	}
	rank := func(ts []*Term) {
		sort.SliceStable(ts, func(i, j int) bool {
			si, sj := hasSkolem(ts[i]), hasSkolem(ts[j])
			if si != sj {
				return si
			}
			if a, b := termSize(ts[i]), termSize(ts[j]); a != b {
				return a < b
			}
			return ts[i].id < ts[j].id
		})
	}
	if joint || len(q.Bound) == 1 {
		sort.SliceStable(full, func(i, j int) bool {
			a, b := 0, 0
			for _, x := range full[i] {
				a += termSize(x)
			}
			for _, x := range full[j] {
				b += termSize(x)
			}
			if a != b {
				return a < b
			}
			for k := range full[i] {
				if full[i][k].id != full[j][k].id {
					return full[i][k].id < full[j][k].id
				}
			}
			return false
		})
		if len(q.Bound) == 1 {
			// single variable: perVar also holds function-argument candidates
			var ts []*Term
			for x := range perVar[0] {
				ts = append(ts, x)
			}
			sort.Slice(ts, func(i, j int) bool { return ts[i].id < ts[j].id })
			rank(ts)
			full = full[:0]
			for _, x := range ts {
				full = append(full, []*Term{x})
			}
		}
		if len(full) > capN {
			full = full[:capN]
		}
		return full
	}
	// independent variables: capped cartesian product
	lists := make([][]*Term, len(q.Bound))
	for i := range lists {
		for x := range perVar[i] {
			lists[i] = append(lists[i], x)
		}
		if len(lists[i]) == 0 {
			return nil
		}
		sort.Slice(lists[i], func(a, b int) bool { return lists[i][a].id < lists[i][b].id })
		rank(lists[i])
	}
	var out [][]*Term
	idx := make([]int, len(lists))
	for len(out) < capN {
		tup := make([]*Term, len(lists))
		for i := range lists {
			tup[i] = lists[i][idx[i]]
		}
		out = append(out, tup)
		j := 0
		for j < len(idx) {
			idx[j]++
			if idx[j] < len(lists[j]) {
				break
			}
			idx[j] = 0
			j++
		}
		if j == len(idx) {
			break
		}
	}
	return out
}

// indexGround builds the lookup tables of ground reads for strictTuples.
func indexGround(sels []gsel) map[string][]gsel {
	byKey := map[string][]gsel{}
	for _, s := range sels {
		k := rowKey(s.arr)
		byKey[k] = append(byKey[k], s)
		if s.arr.Op == "select" && s.arr.Args[0].S.K == KArray {
			k2 := "2:" + heapFamily(s.arr.Args[0])
			byKey[k2] = append(byKey[k2], s)
		}
	}
	return byKey
}
