package eng

import (
	"fmt"
	"go/types"
	"os"
	"path/filepath"
	"sort"
	"strings"

	"golang.org/x/tools/go/packages"
	"golang.org/x/tools/go/ssa"
	"golang.org/x/tools/go/ssa/ssautil"
)

const ModPath = "github.com/oxia-db/oxia"

type Program struct {
	RepoDir   string
	Prog      *ssa.Program
	Pkgs      []*packages.Package
	SSAPkgs   []*ssa.Package
	Funcs     map[string]*ssa.Function // key -> function (all functions with bodies in loaded packages + closures)
	Contracts map[string]*Contract     // key -> contract
	Patterns  []*Contract              // trusted contracts whose key ends in ".*"
	UFuns     map[string]*UFun
	Defines   map[string]*Define
	Axioms    []*Clause
	Impls     map[string]*ImplDecl // iface key -> declaration
	ImplType  map[string]types.Type
	LoadErrs  []string
	// globals stored to outside package init
	MutableGlobals map[*ssa.Global]bool
	// constant initial values of package-level variables (from the package initialiser)
	GlobalInit map[*ssa.Global]*ssa.Const
}

// UFun is an uninterpreted ghost function declared in a spec file.
type UFun struct {
	Name   string
	Params []string // Go type strings
	Result string
}

// FuncKey is the canonical name of a function: <pkgpath>.<Recv>.<name>[$n].
func FuncKey(f *ssa.Function) string {
	if f == nil {
		return "<nil>"
	}
	if f.Parent() != nil {
		// closure: parent$N already in name
		return FuncKey(f.Parent()) + strings.TrimPrefix(f.Name(), f.Parent().Name())
	}
	name := f.Name()
	pkg := ""
	if f.Pkg != nil {
		pkg = f.Pkg.Pkg.Path()
	} else if o := f.Object(); o != nil && o.Pkg() != nil {
		pkg = o.Pkg().Path()
	}
	if recv := f.Signature.Recv(); recv != nil {
		t := recv.Type()
		if p, ok := t.(*types.Pointer); ok {
			t = p.Elem()
		}
		if n, ok := t.(*types.Named); ok {
			if n.Obj().Pkg() != nil {
				pkg = n.Obj().Pkg().Path()
			}
			return pkg + "." + n.Obj().Name() + "." + name
		}
		return pkg + "." + types.TypeString(t, func(*types.Package) string { return "" }) + "." + name
	}
	return pkg + "." + name
}

func ShortKey(k string) string {
	k = strings.TrimPrefix(k, ModPath+"/")
	return k
}

// Load loads the given package patterns (relative to the repo dir) with -tags verif.
func Load(repoDir string, patterns []string) (*Program, error) {
	cfg := &packages.Config{
		Mode:       packages.LoadSyntax,
		Dir:        repoDir,
		BuildFlags: []string{"-tags=verif"},
		Env:        append(os.Environ(), "GOFLAGS=-mod=mod", "GOPROXY=off"),
	}
	pkgs, err := packages.Load(cfg, patterns...)
	if err != nil {
		return nil, err
	}
	p := &Program{RepoDir: repoDir, Pkgs: pkgs, Funcs: map[string]*ssa.Function{}, Contracts: map[string]*Contract{}, UFuns: map[string]*UFun{}, Defines: map[string]*Define{}, Impls: map[string]*ImplDecl{}, ImplType: map[string]types.Type{}, MutableGlobals: map[*ssa.Global]bool{}, GlobalInit: map[*ssa.Global]*ssa.Const{}}
	for _, pk := range pkgs {
		for _, e := range pk.Errors {
			p.LoadErrs = append(p.LoadErrs, e.Error())
		}
	}
	if len(p.LoadErrs) > 0 {
		return p, fmt.Errorf("package load errors:\n%s", strings.Join(p.LoadErrs, "\n"))
	}
	prog, spkgs := ssautil.Packages(pkgs, ssa.InstantiateGenerics|ssa.GlobalDebug)
	p.Prog = prog
	p.SSAPkgs = spkgs
	for _, sp := range spkgs {
		if sp != nil {
			sp.Build()
		}
	}
	for f := range ssautil.AllFunctions(prog) {
		if f.Blocks == nil {
			continue
		}
		if strings.HasPrefix(f.Synthetic, "wrapper for") || strings.HasPrefix(f.Synthetic, "bound method wrapper") || strings.HasPrefix(f.Synthetic, "thunk for") {
			continue
		}
		p.Funcs[FuncKey(f)] = f
		if f.Name() == "init" && f.Parent() == nil {
			for _, b := range f.Blocks {
				for _, in := range b.Instrs {
					if st, ok := in.(*ssa.Store); ok {
						if g, ok := st.Addr.(*ssa.Global); ok {
							if c, ok := st.Val.(*ssa.Const); ok {
								if _, dup := p.GlobalInit[g]; dup {
									p.MutableGlobals[g] = true
								}
								p.GlobalInit[g] = c
							}
						}
					}
				}
			}
			continue
		}
		for _, b := range f.Blocks {
			for _, in := range b.Instrs {
				if st, ok := in.(*ssa.Store); ok {
					if g, ok := st.Addr.(*ssa.Global); ok {
						p.MutableGlobals[g] = true
					}
				}
			}
		}
	}
	// contract files in the loaded packages
	for _, pk := range pkgs {
		for _, f := range pk.GoFiles {
			if strings.HasSuffix(f, "_verif.go") && strings.HasPrefix(filepath.Base(f), "zz_contracts") {
				sf, err := ParseSpecFile(f, pk.PkgPath)
				if err != nil {
					return p, err
				}
				if err := p.addSpecs(sf); err != nil {
					return p, err
				}
			}
		}
	}
	return p, nil
}

func (p *Program) addSpecs(sf *SpecFile) error {
	for _, d := range sf.Defines {
		if _, dup := p.Defines[d.Name]; dup {
			return fmt.Errorf("%s:%d: duplicate define %s", d.File, d.Line, d.Name)
		}
		p.Defines[d.Name] = d
	}
	for _, u := range sf.UFuns {
		p.UFuns[u.Name] = u
	}
	for _, im := range sf.Impls {
		p.Impls[im.Iface] = im
	}
	p.Axioms = append(p.Axioms, sf.Axioms...)
	for _, c := range sf.Contracts {
		if strings.HasSuffix(c.Key, ".*") {
			p.Patterns = append(p.Patterns, c)
			continue
		}
		if _, dup := p.Contracts[c.Key]; dup {
			return fmt.Errorf("%s:%d: duplicate contract for %s", c.File, c.Line, c.Key)
		}
		p.Contracts[c.Key] = c
	}
	return nil
}

// LoadTrusted reads /verif/trusted/*.spec.
func (p *Program) LoadTrusted(dir string) error {
	files, _ := filepath.Glob(filepath.Join(dir, "*.spec"))
	sort.Strings(files)
	for _, f := range files {
		sf, err := ParseSpecFile(f, "")
		if err != nil {
			return err
		}
		for _, c := range sf.Contracts {
			c.Trusted = true
		}
		if err := p.addSpecs(sf); err != nil {
			return err
		}
	}
	return nil
}

// ContractFor finds the contract of a callee (exact key, then wildcard patterns).
func (p *Program) ContractFor(key string) *Contract {
	if c, ok := p.Contracts[key]; ok {
		return c
	}
	for _, c := range p.Patterns {
		if strings.HasPrefix(key, strings.TrimSuffix(c.Key, "*")) {
			return c
		}
	}
	return nil
}

// ---------------------------------------------------------------- loops

type Loop struct {
	Header  *ssa.BasicBlock
	Blocks  map[*ssa.BasicBlock]bool
	Ordinal int
	Latches []*ssa.BasicBlock
}

type CFG struct {
	Fn      *ssa.Function
	Loops   map[*ssa.BasicBlock]*Loop // by header
	LoopSeq []*Loop
	Order   []*ssa.BasicBlock // topological order ignoring back edges
	Back    map[[2]int]bool   // back edges (from, to) by block index
}

func AnalyzeCFG(fn *ssa.Function) (*CFG, error) {
	c := &CFG{Fn: fn, Loops: map[*ssa.BasicBlock]*Loop{}, Back: map[[2]int]bool{}}
	if len(fn.Blocks) == 0 {
		return c, nil
	}
	for _, b := range fn.Blocks {
		for _, s := range b.Succs {
			if s.Dominates(b) {
				c.Back[[2]int{b.Index, s.Index}] = true
				l := c.Loops[s]
				if l == nil {
					l = &Loop{Header: s, Blocks: map[*ssa.BasicBlock]bool{s: true}}
					c.Loops[s] = l
				}
				l.Latches = append(l.Latches, b)
				// natural loop: backward closure from b
				stack := []*ssa.BasicBlock{b}
				for len(stack) > 0 {
					x := stack[len(stack)-1]
					stack = stack[:len(stack)-1]
					if l.Blocks[x] {
						continue
					}
					l.Blocks[x] = true
					stack = append(stack, x.Preds...)
				}
			}
		}
	}
	for _, b := range fn.Blocks {
		if l, ok := c.Loops[b]; ok {
			l.Ordinal = len(c.LoopSeq)
			c.LoopSeq = append(c.LoopSeq, l)
		}
	}
	// topological order (Kahn) without back edges; unreachable blocks are skipped
	indeg := map[*ssa.BasicBlock]int{}
	reach := map[*ssa.BasicBlock]bool{}
	var dfs func(b *ssa.BasicBlock)
	dfs = func(b *ssa.BasicBlock) {
		if reach[b] {
			return
		}
		reach[b] = true
		for _, s := range b.Succs {
			dfs(s)
		}
	}
	dfs(fn.Blocks[0])
	if fn.Recover != nil {
		// recover block is not modelled
		_ = fn.Recover
	}
	for _, b := range fn.Blocks {
		if !reach[b] {
			continue
		}
		for _, s := range b.Succs {
			if !c.Back[[2]int{b.Index, s.Index}] {
				indeg[s]++
			}
		}
	}
	var ready []*ssa.BasicBlock
	ready = append(ready, fn.Blocks[0])
	for len(ready) > 0 {
		sort.Slice(ready, func(i, j int) bool { return ready[i].Index < ready[j].Index })
		b := ready[0]
		ready = ready[1:]
		c.Order = append(c.Order, b)
		for _, s := range b.Succs {
			if c.Back[[2]int{b.Index, s.Index}] {
				continue
			}
			indeg[s]--
			if indeg[s] == 0 {
				ready = append(ready, s)
			}
		}
	}
	n := 0
	for range reach {
		n++
	}
	if len(c.Order) != n {
		return c, fmt.Errorf("irreducible control flow in %s", fn.Name())
	}
	return c, nil
}

// DumpSSA prints the SSA of functions whose key ends with the given name.
func DumpSSA(repo, pkg, name string) {
	p, err := Load(repo, []string{pkg})
	if err != nil {
		fmt.Println(err)
		return
	}
	var keys []string
	for k := range p.Funcs {
		if strings.HasSuffix(k, "."+name) || strings.Contains(k, "."+name+"$") {
			keys = append(keys, k)
		}
	}
	sort.Strings(keys)
	for _, k := range keys {
		fmt.Println("KEY", k)
		p.Funcs[k].WriteTo(os.Stdout)
	}
}

// ResolveImpls type-checks the impl declarations and verifies the closed world:
// every conversion of a concrete value to the interface (in non-test code of the
// loaded packages) is from the declared type.
func (p *Program) ResolveImpls() error {
	for key, im := range p.Impls {
		var pkg *packages.Package
		for _, pk := range p.Pkgs {
			if pk.PkgPath == im.Pkg {
				pkg = pk
			}
		}
		if pkg == nil {
			return fmt.Errorf("%s:%d: package %s not loaded", im.File, im.Line, im.Pkg)
		}
		name := strings.TrimPrefix(im.Impl, "*")
		o := pkg.Types.Scope().Lookup(name)
		tn, ok := o.(*types.TypeName)
		if !ok {
			return fmt.Errorf("%s:%d: unknown type %s", im.File, im.Line, im.Impl)
		}
		var t types.Type = tn.Type()
		if strings.HasPrefix(im.Impl, "*") {
			t = types.NewPointer(t)
		}
		io := pkg.Types.Scope().Lookup(key[strings.LastIndex(key, ".")+1:])
		itn, ok := io.(*types.TypeName)
		if !ok {
			return fmt.Errorf("%s:%d: unknown interface %s", im.File, im.Line, key)
		}
		iface, ok := itn.Type().Underlying().(*types.Interface)
		if !ok || !types.Implements(t, iface) {
			return fmt.Errorf("%s:%d: %s does not implement %s", im.File, im.Line, im.Impl, key)
		}
		p.ImplType[key] = t
		// closed world
		for _, f := range p.Funcs {
			for _, b := range f.Blocks {
				for _, in := range b.Instrs {
					switch x := in.(type) {
					case *ssa.MakeInterface:
						if types.Identical(x.Type(), itn.Type()) && !types.Identical(x.X.Type(), t) {
							return fmt.Errorf("%s:%d: closed-world check failed: %s is also implemented by %s (in %s)", im.File, im.Line, key, x.X.Type(), f.Name())
						}
					case *ssa.ChangeInterface:
						if types.Identical(x.Type(), itn.Type()) && !types.Identical(x.X.Type(), itn.Type()) {
							return fmt.Errorf("%s:%d: closed-world check failed: %s values are converted from interface %s (in %s)", im.File, im.Line, key, x.X.Type(), f.Name())
						}
					}
				}
			}
		}
	}
	return nil
}
