package eng

import (
	"encoding/json"
	"bytes"
	"fmt"
	"os"
	"os/exec"
	"path/filepath"
	"regexp"
	"sort"
	"strings"
	"time"
)

type MutantResult struct {
	Prop     string `json:"property"`
	Name     string `json:"name"`
	Expect   string `json:"expect"`
	Killed   bool   `json:"killed"`
	ByExpected bool `json:"by_expected_obligation"`
	Failed   []string `json:"failed_obligations"`
	Seconds  float64 `json:"seconds"`
	Note     string `json:"note,omitempty"`
}

// RunSelftest applies every must-fail patch of the property (or all) to a scratch
// copy of the repo and requires the check to report a violation.
// skipBaseline: the caller has just checked the unmodified tree.
var selftestSkipBaseline bool

// RunSelftestEmbedded runs the must-fail corpus of one property after a passing
// thorough check and returns (total, killed, names of survivors).
func RunSelftestEmbedded(verifDir, repoDir, prop, vpBin string) (int, int, []string) {
	selftestSkipBaseline = true
	defer func() { selftestSkipBaseline = false }()
	RunSelftest(verifDir, repoDir, prop, vpBin)
	var lr struct {
		Mutants   int `json:"mutants"`
		Survivors int `json:"survivors"`
		Results   []struct {
			Name   string `json:"name"`
			Killed bool   `json:"killed"`
		} `json:"results"`
	}
	b, err := os.ReadFile(filepath.Join(verifDir, "selftest", "last-run.json"))
	if err != nil || json.Unmarshal(b, &lr) != nil {
		return 0, 0, nil
	}
	var surv []string
	for _, r := range lr.Results {
		if !r.Killed {
			surv = append(surv, r.Name)
		}
	}
	return lr.Mutants, lr.Mutants - lr.Survivors, surv
}

func RunSelftest(verifDir, repoDir, prop string, vpBin string) int {
	root := filepath.Join(verifDir, "selftest", "mutants")
	var patches []string
	filepath.Walk(root, func(p string, info os.FileInfo, err error) error {
		if err == nil && !info.IsDir() && strings.HasSuffix(p, ".patch") {
			if prop == "" || filepath.Base(filepath.Dir(p)) == prop {
				patches = append(patches, p)
			}
		}
		return nil
	})
	sort.Strings(patches)
	if len(patches) == 0 {
		fmt.Println("selftest: no mutants")
		return 0
	}
	scratchRoot := os.Getenv("VP_SCRATCH")
	if scratchRoot == "" {
		scratchRoot = fmt.Sprintf("/var/tmp/vp-selftest-%d", os.Getpid())
	}
	os.MkdirAll(scratchRoot, 0o755)
	defer os.RemoveAll(scratchRoot)
	var results []MutantResult
	survivors := 0
	// the unmodified tree must pass, otherwise a kill means nothing
	props := map[string]bool{}
	for _, p := range patches {
		props[filepath.Base(filepath.Dir(p))] = true
	}
	for mp := range props {
		if selftestSkipBaseline {
			break
		}
		outDir := filepath.Join(scratchRoot, "out-base")
		os.MkdirAll(outDir, 0o755)
		c := exec.Command(vpBin, "check", mp, "--tier", "quick", "--out", outDir)
		c.Env = append(os.Environ(), "VERIF_REPO="+repoDir, "VERIF_DIR="+verifDir, "VP_SCRATCH="+filepath.Join(scratchRoot, "q"))
		if out, err := c.CombinedOutput(); err != nil {
			fmt.Printf("selftest: baseline check %s does not pass on the unmodified tree:\n%s\n", mp, tail(string(out), 1500))
			return 2
		}
		os.RemoveAll(outDir)
	}
	for _, p := range patches {
		mp := filepath.Base(filepath.Dir(p))
		name := strings.TrimSuffix(filepath.Base(p), ".patch")
		b, _ := os.ReadFile(p)
		expect := ""
		for _, l := range strings.Split(string(b), "\n") {
			if strings.HasPrefix(l, "# expect:") {
				expect = strings.TrimSpace(strings.TrimPrefix(l, "# expect:"))
			}
		}
		start := time.Now()
		dir := filepath.Join(scratchRoot, "repo")
		os.RemoveAll(dir)
		if out, err := exec.Command("cp", "-r", repoDir, dir).CombinedOutput(); err != nil {
			fmt.Printf("selftest: copy failed: %s\n", out)
			return 2
		}
		os.RemoveAll(filepath.Join(dir, ".git"))
		cmd := exec.Command("patch", "-p1", "-s", "-i", p)
		cmd.Dir = dir
		if out, err := cmd.CombinedOutput(); err != nil {
			results = append(results, MutantResult{Prop: mp, Name: name, Expect: expect, Note: "patch does not apply: " + strings.TrimSpace(string(out))})
			fmt.Printf("MUTANT %s/%s: PATCH-DOES-NOT-APPLY\n", mp, name)
			survivors++
			continue
		}
		outDir := filepath.Join(scratchRoot, "out")
		os.RemoveAll(outDir)
		os.MkdirAll(outDir, 0o755)
		c := exec.Command(vpBin, "check", mp, "--tier", "quick", "--out", outDir)
		c.Env = append(os.Environ(), "VERIF_REPO="+dir, "VERIF_DIR="+verifDir, "VP_SCRATCH="+filepath.Join(scratchRoot, "q"), "VERIF_TIER=quick")
		var ob bytes.Buffer
		c.Stdout = &ob
		c.Stderr = &ob
		c.Run()
		code := c.ProcessState.ExitCode()
		mr := MutantResult{Prop: mp, Name: name, Expect: expect, Seconds: time.Since(start).Seconds()}
		re, _ := regexp.Compile(expect)
		for _, l := range strings.Split(ob.String(), "\n") {
			if strings.HasPrefix(l, "FAILED ") {
				f := strings.Fields(l)
				if len(f) > 1 {
					mr.Failed = append(mr.Failed, f[1])
					if re != nil && expect != "" && re.MatchString(f[1]) {
						mr.ByExpected = true
					}
				}
			}
		}
		mr.Killed = code == 1 && strings.Contains(ob.String(), "VIOLATION property="+mp)
		status := "KILLED"
		if !mr.Killed {
			status = "SURVIVED"
			survivors++
			if code == 2 {
				mr.Note = "check reported BROKEN (exit 2)"
				if strings.Contains(ob.String(), "reason=load: package load errors") {
					status = "INVALID-MUTANT (does not compile)"
				}
			}
		} else if !mr.ByExpected {
			status = "KILLED (by another obligation than expected)"
		}
		fmt.Printf("MUTANT %s/%s: %s %v (%.1fs)\n", mp, name, status, mr.Failed, mr.Seconds)
		results = append(results, mr)
		os.RemoveAll(dir)
	}
	writeJSON(filepath.Join(verifDir, "selftest", "last-run.json"), map[string]any{"mutants": len(results), "survivors": survivors, "results": results})
	fmt.Printf("selftest: %d mutants, %d killed, %d survived\n", len(results), len(results)-survivors, survivors)
	if survivors > 0 {
		return 1
	}
	return 0
}
