package eng

import (
	"strconv"
	"sort"
	"fmt"
	"go/types"
	"math/big"
	"strings"

	"golang.org/x/tools/go/ssa"
)

// SCtx translates contract expressions into terms over a program state.
type SCtx struct {
	g          *Gen
	st         *State
	old        *State
	vars       map[string]Val
	lookup     func(string) (Val, bool)
	bound      map[string]Val
	loopHeader *ssa.BasicBlock
	calleeKey  string
	useParams  bool
	inOld      bool
	pkg        *types.Package
	depth      int
	atBlock    *ssa.BasicBlock // program point for binding source-level locals
	atSt       *State          // inside atcall(...): the state recorded before that call
}

var mathInt = types.Typ[types.UntypedInt]

func (g *Gen) specCtx(st, old *State, lookup func(string) (Val, bool)) *SCtx {
	sc := &SCtx{g: g, st: st, old: old, lookup: lookup, bound: map[string]Val{}, useParams: true}
	if g.Fn.Pkg != nil {
		sc.pkg = g.Fn.Pkg.Pkg
	}
	return sc
}

func (g *Gen) specCtxVars(st, old *State, vars map[string]Val) *SCtx {
	sc := &SCtx{g: g, st: st, old: old, vars: vars, bound: map[string]Val{}}
	if g.Fn.Pkg != nil {
		sc.pkg = g.Fn.Pkg.Pkg
	}
	return sc
}

func (sc *SCtx) state() *State {
	if sc.inOld {
		return sc.old
	}
	if sc.atSt != nil {
		return sc.atSt
	}
	return sc.st
}

func (sc *SCtx) boolTerm(e Expr) (*Term, error) {
	v, err := sc.eval(e)
	if err != nil {
		return nil, err
	}
	if v.K != VScalar || v.T == nil || v.T.S != SBool {
		return nil, fmt.Errorf("expression %s is not boolean", ExprString(e))
	}
	return v.T, nil
}

func (sc *SCtx) intTerm(e Expr) (*Term, error) {
	v, err := sc.eval(e)
	if err != nil {
		return nil, err
	}
	if v.K != VScalar || v.T == nil || v.T.S != SInt {
		return nil, fmt.Errorf("expression %s is not an integer", ExprString(e))
	}
	return v.T, nil
}

func (sc *SCtx) pkgScopeLookup(name string) types.Object {
	if sc.calleeKey != "" {
		// contract of a callee: resolve in the callee's package
		if f, ok := sc.g.P.Funcs[sc.calleeKey]; ok && f.Pkg != nil {
			if o := f.Pkg.Pkg.Scope().Lookup(name); o != nil {
				return o
			}
		}
		for _, pk := range sc.g.P.Pkgs {
			if strings.HasPrefix(sc.calleeKey, pk.PkgPath+".") {
				if o := pk.Types.Scope().Lookup(name); o != nil {
					return o
				}
			}
		}
	}
	if sc.pkg != nil {
		if o := sc.pkg.Scope().Lookup(name); o != nil {
			return o
		}
	}
	return types.Universe.Lookup(name)
}

func (sc *SCtx) importedPkg(name string) *types.Package {
	var from *types.Package = sc.pkg
	if sc.calleeKey != "" {
		if f, ok := sc.g.P.Funcs[sc.calleeKey]; ok && f.Pkg != nil {
			from = f.Pkg.Pkg
		}
	}
	if from != nil {
		// two imports may share the package name (oxia/proto and protobuf/proto): the
		// repository's own package wins
		var first *types.Package
		for _, imp := range from.Imports() {
			if imp.Name() == name {
				if strings.HasPrefix(imp.Path(), ModPath) {
					return imp
				}
				if first == nil {
					first = imp
				}
			}
		}
		if first != nil {
			return first
		}
	}
	for _, pk := range sc.g.P.Pkgs {
		if pk.Name == name {
			return pk.Types
		}
		for _, imp := range pk.Types.Imports() {
			if imp.Name() == name {
				return imp
			}
		}
	}
	return nil
}

func (sc *SCtx) ident(name string) (Val, error) {
	if v, ok := sc.bound[name]; ok {
		return v, nil
	}
	if sc.inOld && sc.useParams {
		// old(x): the entry value of a parameter, also where x is loop-carried
		if v, ok := sc.g.params[name]; ok {
			return v, nil
		}
	}
	if sc.vars != nil {
		if v, ok := sc.vars[name]; ok {
			return v, nil
		}
		// captured variable of a closure: cell pointer bound as &name
		if cell, ok := sc.vars["&"+name]; ok {
			a := sc.g.addrOf(cell)
			if a != nil {
				return sc.g.load(sc.state(), a, a.RootT), nil
			}
		}
	}
	if sc.lookup != nil {
		if v, ok := sc.lookup(name); ok {
			return v, nil
		}
	}
	if sc.useParams {
		if sc.loopHeader != nil && !sc.inOld {
			// a loop-carried variable shadows the parameter of the same name
			for _, in := range sc.loopHeader.Instrs {
				if phi, ok := in.(*ssa.Phi); ok && phi.Comment == name {
					if v, ok := sc.g.env[phi]; ok {
						return v, nil
					}
				}
			}
			// a loop-carried variable of an enclosing loop: fixed during this loop
			{
				var encl []*Loop
				for _, l := range sc.g.cfg.LoopSeq {
					if l.Header != sc.loopHeader && l.Blocks[sc.loopHeader] {
						encl = append(encl, l)
					}
				}
				sort.Slice(encl, func(i, j int) bool { return len(encl[i].Blocks) < len(encl[j].Blocks) })
				for _, l := range encl {
					for _, in := range l.Header.Instrs {
						if phi, ok := in.(*ssa.Phi); ok && phi.Comment == name {
							if v, ok := sc.g.env[phi]; ok {
								return v, nil
							}
						}
					}
				}
			}
			// hidden iteration variables (range-over-int): the source variable is a
			// per-iteration copy of a header phi
			if hp := sc.g.hiddenPhi(sc.loopHeader, name); hp != nil {
				if sc.lookup != nil {
					if v, ok := sc.lookup(hp.Comment); ok {
						return v, nil
					}
				}
				if v, ok := sc.g.env[hp]; ok {
					return v, nil
				}
			}
		}
		if v, ok := sc.g.params[name]; ok {
			return v, nil
		}
		if v, ok := sc.g.ghostVals[name]; ok {
			return v, nil
		}
		// callres_<Func>_<k>[_<i>]: the (i-th) result of the k-th contract-carrying call
		// of Func made so far in this function
		if strings.HasPrefix(name, "callres_") && sc.g.callRes != nil {
			if v, ok := sc.g.callRes[name]; ok {
				if v.K == VTuple && len(v.F) == 1 {
					return v.F[0], nil
				}
				return v, nil
			}
			if i := strings.LastIndex(name, "_"); i > 0 {
				if v, ok := sc.g.callRes[name[:i]]; ok && v.K == VTuple {
					if n, err := strconv.Atoi(name[i+1:]); err == nil && n >= 0 && n < len(v.F) {
						return v.F[n], nil
					}
				}
			}
		}
		// source-level locals are visible only to loop invariants (and closures see
		// their captured variables); elsewhere a stray name must not bind silently
		if sc.loopHeader != nil || sc.atBlock != nil || len(sc.g.Fn.FreeVars) > 0 {
			if v, ok := sc.localVar(name); ok {
				return v, nil
			}
		}
	}
	if name == "rangeslice" && sc.loopHeader != nil {
		// the slice a `for .. range` loop iterates over (it often has no source name)
		for _, in := range sc.loopHeader.Instrs {
			if phi, ok := in.(*ssa.Phi); ok && phi.Comment == "rangeindex" {
				if call, ok := rangeBound(sc.loopHeader, phi).(*ssa.Call); ok {
					if b, ok := call.Call.Value.(*ssa.Builtin); ok && b.Name() == "len" && len(call.Call.Args) == 1 {
						if v, ok := sc.g.env[call.Call.Args[0]]; ok {
							return v, nil
						}
					}
				}
			}
		}
		return Val{}, fmt.Errorf("rangeslice: not inside a range-over-slice loop")
	}
	switch name {
	case "true":
		return scalar(True, types.Typ[types.Bool]), nil
	case "false":
		return scalar(False, types.Typ[types.Bool]), nil
	case "nil":
		return scalar(IntLit(0), types.Typ[types.UntypedNil]), nil
	}
	if o := sc.pkgScopeLookup(name); o != nil {
		return sc.object(o)
	}
	return Val{}, fmt.Errorf("identifier %q does not bind", name)
}

func (sc *SCtx) object(o types.Object) (Val, error) {
	switch x := o.(type) {
	case *types.Const:
		c := ssa.NewConst(x.Val(), x.Type())
		v := sc.g.constVal(c)
		if v.K == VScalar && v.T != nil && v.T.S == SInt {
			v.Ty = x.Type()
		}
		return v, nil
	case *types.Var:
		// package-level variable
		for _, sp := range sc.g.P.SSAPkgs {
			if sp != nil && sp.Pkg == x.Pkg() {
				if gl, ok := sp.Members[x.Name()].(*ssa.Global); ok {
					a := &Addr{Root: RGlobal, Glob: gl, RootT: x.Type()}
					return sc.g.load(sc.state(), a, x.Type()), nil
				}
			}
		}
		if pk := sc.g.P.Prog.Package(x.Pkg()); pk != nil {
			if gl, ok := pk.Members[x.Name()].(*ssa.Global); ok {
				a := &Addr{Root: RGlobal, Glob: gl, RootT: x.Type()}
				return sc.g.load(sc.state(), a, x.Type()), nil
			}
		}
	}
	return Val{}, fmt.Errorf("object %s is not usable in a contract", o.Name())
}

// localVar binds a source-level local by name: loop-header phi, captured cell,
// named result cell, or the dominating debug reference.
func (sc *SCtx) localVar(name string) (Val, bool) {
	g := sc.g
	if sc.loopHeader != nil {
		for _, in := range sc.loopHeader.Instrs {
			if phi, ok := in.(*ssa.Phi); ok && phi.Comment == name {
				if v, ok := g.env[phi]; ok {
					return v, true
				}
			}
		}
	}
	for _, fv := range g.Fn.FreeVars {
		if fv.Name() == name {
			cell := g.env[fv]
			if a := g.addrOf(cell); a != nil {
				if g.entry != nil && g.immutableCapture(fv) {
					return g.load(g.entry, a, a.RootT), true
				}
				return g.load(sc.state(), a, a.RootT), true
			}
		}
	}
	// allocs named after the variable (address-taken locals, named results)
	{
		// several variables may share the name (shadowing, sibling scopes): take the
		// allocation closest to the program point among those that dominate it
		pt := sc.atBlock
		if sc.loopHeader != nil {
			pt = sc.loopHeader
		}
		var bestAl *ssa.Alloc
		for _, b := range g.Fn.Blocks {
			for _, in := range b.Instrs {
				al, ok := in.(*ssa.Alloc)
				if !ok || al.Comment != name {
					continue
				}
				if _, ok := g.env[al]; !ok {
					continue
				}
				if pt != nil && al.Block() != nil && !al.Block().Dominates(pt) {
					continue
				}
				if bestAl == nil || (bestAl.Block() != nil && al.Block() != nil && bestAl.Block().Dominates(al.Block())) {
					bestAl = al
				}
			}
		}
		if bestAl != nil {
			if a := g.addrOf(g.env[bestAl]); a != nil {
				return g.load(sc.state(), a, a.RootT), true
			}
		}
	}
	var best *debugBinding
	cands := g.debugVals[name]
	// the program point the name is evaluated at
	point := sc.atBlock
	if sc.loopHeader != nil {
		point = sc.loopHeader
	}
	// a use of the variable tells its value at the point only if no assignment to the
	// variable can happen between the use and the point
	clean := func(u *debugBinding) bool {
		if point == nil {
			return true
		}
		for i := range cands {
			d := &cands[i]
			if !d.Def || d.Obj != u.Obj {
				continue
			}
			if d.Block == u.Block {
				if d.Idx < u.Idx {
					continue // assigned before the use: the use sees it
				}
				return false // assigned after the use, on the way to the point
			}
			// an assignment on a path from the use to the point that does not pass the
			// use again
			if g.reachesAvoiding(u.Block, d.Block, u.Block) && g.reachesAvoiding(d.Block, point, u.Block) {
				return false
			}
		}
		return true
	}
	if sc.loopHeader != nil {
		// not loop-carried (no header phi): if the loop never assigns the variable,
		// every use inside the loop sees the value it has at the header
		lp := g.cfg.Loops[sc.loopHeader]
		assignedInLoop := map[types.Object]bool{}
		for i := range cands {
			if cands[i].Def && lp.Blocks[cands[i].Block] {
				assignedInLoop[cands[i].Obj] = true
			}
		}
		for i := range cands {
			c := &cands[i]
			if c.Def || c.Addr || !lp.Blocks[c.Block] || assignedInLoop[c.Obj] {
				continue
			}
			if _, ok := g.env[c.V]; !ok {
				if _, isC := c.V.(*ssa.Const); !isC {
					continue
				}
			}
			// the value must be defined outside the loop
			if in, ok := c.V.(ssa.Instruction); ok && in.Block() != nil && lp.Blocks[in.Block()] {
				continue
			}
			best = c
			break
		}
	}
	for i := range cands {
		if best != nil {
			break
		}
		c := &cands[i]
		if c.Def {
			continue
		}
		if _, ok := g.env[c.V]; !ok {
			if _, isC := c.V.(*ssa.Const); !isC {
				continue
			}
		}
		if sc.loopHeader != nil {
			if !c.Block.Dominates(sc.loopHeader) || g.cfg.Loops[sc.loopHeader].Blocks[c.Block] {
				continue
			}
		}
		if sc.atBlock != nil && !c.Block.Dominates(sc.atBlock) {
			continue
		}
		if !clean(c) {
			continue
		}
		_ = i
		best = c
		for j := i + 1; j < len(cands); j++ {
			c2 := &cands[j]
			if c2.Def || c2.Obj != best.Obj {
				continue
			}
			if _, ok := g.env[c2.V]; !ok {
				if _, isC := c2.V.(*ssa.Const); !isC {
					continue
				}
			}
			if sc.loopHeader != nil && (!c2.Block.Dominates(sc.loopHeader) || g.cfg.Loops[sc.loopHeader].Blocks[c2.Block]) {
				continue
			}
			if sc.atBlock != nil && !c2.Block.Dominates(sc.atBlock) {
				continue
			}
			if clean(c2) && best.Block.Dominates(c2.Block) {
				best = c2
			}
		}
	}
	if best == nil && point != nil {
		// a later use: the value flows unchanged from the point to the use when no
		// assignment lies on any path between them, and the value already exists at
		// the point
		for i := range cands {
			c := &cands[i]
			if c.Def || c.Addr || !g.reaches(point, c.Block) {
				continue
			}
			if _, ok := g.env[c.V]; !ok {
				if _, isC := c.V.(*ssa.Const); !isC {
					continue
				}
			}
			if in, ok := c.V.(ssa.Instruction); ok && (in.Block() == nil || !in.Block().Dominates(point) || in.Block() == point) {
				continue
			}
			ok := true
			for j := range cands {
				d := &cands[j]
				if !d.Def || d.Obj != c.Obj {
					continue
				}
				if d.Block == c.Block && d.Idx > c.Idx && !g.reachesAvoiding(c.Block, c.Block, nil) {
					continue // assigned after the use only
				}
				if g.reaches(point, d.Block) && g.reaches(d.Block, c.Block) {
					ok = false
					break
				}
			}
			if ok {
				best = c
				break
			}
		}
	}
	if best != nil {
		v := g.val(sc.state(), best.V)
		if best.Addr {
			// the binding is the variable's address (a local cell): read it
			if a := g.addrOf(v); a != nil {
				return g.load(sc.state(), a, typeAt(a.RootT, a.Path)), true
			}
			return Val{}, false
		}
		return v, true
	}
	return Val{}, false
}

func (sc *SCtx) typeByName(name string) (types.Type, error) {
	name = strings.TrimSpace(name)
	if strings.HasPrefix(name, "*") {
		t, err := sc.typeByName(name[1:])
		if err != nil {
			return nil, err
		}
		return types.NewPointer(t), nil
	}
	if strings.HasPrefix(name, "[]") {
		t, err := sc.typeByName(name[2:])
		if err != nil {
			return nil, err
		}
		return types.NewSlice(t), nil
	}
	if strings.Contains(name, "/") {
		// full import path: path/to/pkg.Type
		i := strings.LastIndex(name, ".")
		for _, pk := range sc.g.P.Pkgs {
			if pk.PkgPath == name[:i] {
				if tn, ok := pk.Types.Scope().Lookup(name[i+1:]).(*types.TypeName); ok {
					return tn.Type(), nil
				}
			}
		}
		// a package outside the repository (dependency)
		for _, sp := range sc.g.P.Prog.AllPackages() {
			if sp.Pkg != nil && sp.Pkg.Path() == name[:i] {
				if tn, ok := sp.Pkg.Scope().Lookup(name[i+1:]).(*types.TypeName); ok {
					return tn.Type(), nil
				}
			}
		}
		return nil, fmt.Errorf("unknown type %s", name)
	}
	if i := strings.Index(name, "."); i >= 0 {
		if p := sc.importedPkg(name[:i]); p != nil {
			if o := p.Scope().Lookup(name[i+1:]); o != nil {
				if tn, ok := o.(*types.TypeName); ok {
					return tn.Type(), nil
				}
			}
		}
		return nil, fmt.Errorf("unknown type %s", name)
	}
	if o := sc.pkgScopeLookup(name); o != nil {
		if tn, ok := o.(*types.TypeName); ok {
			return tn.Type(), nil
		}
	}
	return nil, fmt.Errorf("unknown type %s", name)
}

func isIntTy(t types.Type) bool {
	if t == nil {
		return false
	}
	_, _, ok := intInfo(t)
	return ok
}

func (sc *SCtx) eval(e Expr) (Val, error) {
	g := sc.g
	switch x := e.(type) {
	case *EInt:
		b, ok := new(big.Int).SetString(x.V, 0)
		if !ok {
			return Val{}, fmt.Errorf("bad integer %s", x.V)
		}
		return scalar(BigLit(b), mathInt), nil
	case *EChar:
		return scalar(IntLit(x.V), mathInt), nil
	case *EStrL:
		return scalar(g.strLit(x.V), types.Typ[types.String]), nil
	case *EIdent:
		return sc.ident(x.Name)
	case *EOld:
		if sc.old == nil {
			return Val{}, fmt.Errorf("old() not allowed here")
		}
		saved := sc.inOld
		sc.inOld = true
		v, err := sc.eval(x.X)
		sc.inOld = saved
		return v, err
	case *EUn:
		return sc.unary(x)
	case *EBin:
		return sc.binary(x)
	case *ESel:
		return sc.selector(x)
	case *EIndex:
		return sc.index(x)
	case *ESlice:
		return sc.sliceExpr(x)
	case *ECall:
		return sc.call(x)
	case *EQuant:
		return sc.quant(x)
	}
	return Val{}, fmt.Errorf("unsupported expression %s", ExprString(e))
}

func (sc *SCtx) unary(x *EUn) (Val, error) {
	v, err := sc.eval(x.X)
	if err != nil {
		return Val{}, err
	}
	switch x.Op {
	case "!":
		if v.K == VScalar && v.T.S == SBool {
			return scalar(Not(v.T), types.Typ[types.Bool]), nil
		}
	case "-":
		if v.K == VScalar && v.T.S == SInt {
			return scalar(Neg(v.T), mathInt), nil
		}
	case "*":
		a := sc.g.addrOf(v)
		if a == nil {
			return Val{}, fmt.Errorf("cannot dereference %s", ExprString(x.X))
		}
		ty := typeAt(a.RootT, a.Path)
		return sc.g.load(sc.state(), a, ty), nil
	}
	return Val{}, fmt.Errorf("bad operand for %s in %s", x.Op, ExprString(x))
}

func (sc *SCtx) binary(x *EBin) (Val, error) {
	boolT := types.Typ[types.Bool]
	switch x.Op {
	case "&&", "||", "==>", "<==>":
		l, err := sc.boolTerm(x.L)
		if err != nil {
			return Val{}, err
		}
		// the right operand is evaluated in a context where the left holds (for
		// well-definedness this is not needed: all terms are total)
		r, err := sc.boolTerm(x.R)
		if err != nil {
			return Val{}, err
		}
		switch x.Op {
		case "&&":
			return scalar(And(l, r), boolT), nil
		case "||":
			return scalar(Or(l, r), boolT), nil
		case "==>":
			return scalar(Implies(l, r), boolT), nil
		default:
			return scalar(Iff(l, r), boolT), nil
		}
	}
	l, err := sc.eval(x.L)
	if err != nil {
		return Val{}, err
	}
	r, err := sc.eval(x.R)
	if err != nil {
		return Val{}, err
	}
	if l.K == VAddr {
		l = sc.g.firstClass(l, "spec comparison")
	}
	if r.K == VAddr {
		r = sc.g.firstClass(r, "spec comparison")
	}
	switch x.Op {
	case "==", "!=":
		// slice compared with nil: its backing array reference is nil
		if l.K == VSlice && r.K == VScalar && r.Ty == types.Typ[types.UntypedNil] {
			l = l.F[0]
			l.Ty = nil
		}
		if r.K == VSlice && l.K == VScalar && l.Ty == types.Typ[types.UntypedNil] {
			r = r.F[0]
			r.Ty = nil
		}
		eq := valEq(l, r)
		if eq == nil {
			return Val{}, fmt.Errorf("cannot compare %s and %s", ExprString(x.L), ExprString(x.R))
		}
		if x.Op == "!=" {
			eq = Not(eq)
		}
		return scalar(eq, boolT), nil
	}
	if l.K != VScalar || r.K != VScalar || l.T == nil || r.T == nil {
		return Val{}, fmt.Errorf("non-scalar operands in %s", ExprString(x))
	}
	if l.T.S == SStr && r.T.S == SStr {
		switch x.Op {
		case "<":
			return scalar(App("vp_strlt", SBool, l.T, r.T), boolT), nil
		case ">":
			return scalar(App("vp_strlt", SBool, r.T, l.T), boolT), nil
		case "<=":
			return scalar(Not(App("vp_strlt", SBool, r.T, l.T)), boolT), nil
		case ">=":
			return scalar(Not(App("vp_strlt", SBool, l.T, r.T)), boolT), nil
		case "+":
			c := App("vp_concat", SStr, l.T, r.T)
			return scalar(c, types.Typ[types.String]), nil
		}
	}
	if l.T.S != SInt || r.T.S != SInt {
		return Val{}, fmt.Errorf("non-integer operands in %s", ExprString(x))
	}
	switch x.Op {
	case "<":
		return scalar(Lt(l.T, r.T), boolT), nil
	case "<=":
		return scalar(Le(l.T, r.T), boolT), nil
	case ">":
		return scalar(Gt(l.T, r.T), boolT), nil
	case ">=":
		return scalar(Ge(l.T, r.T), boolT), nil
	case "+":
		return scalar(Add(l.T, r.T), mathInt), nil
	case "-":
		return scalar(Sub(l.T, r.T), mathInt), nil
	case "*":
		return scalar(Mul(l.T, r.T), mathInt), nil
	case "/":
		// mathematical floor division for non-negative operands (spec use only)
		return scalar(EDiv(l.T, r.T), mathInt), nil
	case "%":
		return scalar(EMod(l.T, r.T), mathInt), nil
	}
	return Val{}, fmt.Errorf("unsupported operator %s", x.Op)
}

func (sc *SCtx) selector(x *ESel) (Val, error) {
	// package-qualified identifier
	if id, ok := x.X.(*EIdent); ok {
		if _, err := sc.ident(id.Name); err != nil {
			if p := sc.importedPkg(id.Name); p != nil {
				if o := p.Scope().Lookup(x.Name); o != nil {
					return sc.object(o)
				}
				return Val{}, fmt.Errorf("%s.%s not found", id.Name, x.Name)
			}
		}
	}
	base, err := sc.eval(x.X)
	if err != nil {
		return Val{}, err
	}
	a, ty, err := sc.fieldAddr(base, x.Name)
	if err != nil {
		return Val{}, err
	}
	if a == nil {
		return ty.(valHolder).v, nil
	}
	return sc.g.load(sc.state(), a, ty), nil
}

type valHolder struct {
	types.Type
	v Val
}

// fieldAddr resolves base.name; for struct values (not addresses) it returns the
// field value wrapped in a valHolder.
func (sc *SCtx) fieldAddr(base Val, name string) (*Addr, types.Type, error) {
	var bt types.Type
	var a *Addr
	switch base.K {
	case VAddr:
		a = base.A
		bt = typeAt(a.RootT, a.Path)
	case VScalar:
		if base.Ty == nil {
			return nil, nil, fmt.Errorf("untyped base for .%s", name)
		}
		if p, ok := base.Ty.Underlying().(*types.Pointer); ok {
			a = &Addr{Root: RObj, Ref: base.T, RootT: p.Elem()}
			bt = p.Elem()
		} else {
			return nil, nil, fmt.Errorf("cannot select .%s from %s", name, typeStr(base.Ty))
		}
	case VStruct:
		bt = base.Ty
	default:
		return nil, nil, fmt.Errorf("cannot select .%s", name)
	}
	var pkg *types.Package
	if n, ok := bt.(*types.Named); ok {
		pkg = n.Obj().Pkg()
	}
	obj, idx, _ := types.LookupFieldOrMethod(bt, true, pkg, name)
	fld, ok := obj.(*types.Var)
	if !ok || !fld.IsField() {
		return nil, nil, fmt.Errorf("no field %s in %s", name, typeStr(bt))
	}
	if a != nil {
		cur := a
		t := bt
		for _, i := range idx {
			st, ok := t.Underlying().(*types.Struct)
			if !ok {
				// embedded pointer: load and continue
				if p, isP := t.Underlying().(*types.Pointer); isP {
					pv := sc.g.load(sc.state(), cur, t)
					cur = &Addr{Root: RObj, Ref: pv.T, RootT: p.Elem()}
					t = p.Elem()
					st = t.Underlying().(*types.Struct)
				} else {
					return nil, nil, fmt.Errorf("bad field path for %s", name)
				}
			}
			cur = cur.field(i)
			t = st.Field(i).Type()
		}
		return cur, t, nil
	}
	v := base
	t := bt
	for _, i := range idx {
		st := t.Underlying().(*types.Struct)
		v = v.F[i]
		t = st.Field(i).Type()
		v.Ty = t
	}
	return nil, valHolder{Type: t, v: v}, nil
}

// addr evaluates an expression denoting a location.
func (sc *SCtx) addr(e Expr) (*Addr, types.Type, error) {
	switch x := e.(type) {
	case *ESel:
		var base Val
		a0, t0, err0 := sc.addr(x.X)
		_, basePtr := func() (types.Type, bool) {
			if t0 == nil {
				return nil, false
			}
			_, isP := t0.Underlying().(*types.Pointer)
			return t0, isP
		}()
		if err0 == nil && !basePtr {
			// the base is itself a location (nested struct field): stay symbolic
			base = Val{K: VAddr, A: a0}
		} else {
			var err error
			base, err = sc.eval(x.X)
			if err != nil {
				return nil, nil, err
			}
		}
		a, ty, err := sc.fieldAddr(base, x.Name)
		if err != nil {
			return nil, nil, err
		}
		if a == nil {
			return nil, nil, fmt.Errorf("%s is not addressable", ExprString(e))
		}
		return a, ty, nil
	case *EUn:
		if x.Op == "*" {
			v, err := sc.eval(x.X)
			if err != nil {
				return nil, nil, err
			}
			a := sc.g.addrOf(v)
			if a == nil {
				return nil, nil, fmt.Errorf("cannot dereference %s", ExprString(x.X))
			}
			return a, typeAt(a.RootT, a.Path), nil
		}
	case *EIndex:
		base, err := sc.eval(x.X)
		if err != nil {
			return nil, nil, err
		}
		i, err := sc.intTerm(x.I)
		if err != nil {
			return nil, nil, err
		}
		if base.K == VSlice {
			et := base.Ty.Underlying().(*types.Slice).Elem()
			return &Addr{Root: RElem, Ref: base.F[0].T, Idx: Add(base.F[1].T, i), RootT: et}, et, nil
		}
	case *EIdent:
		// a captured cell or named local cell
		if cell, ok := sc.vars["&"+x.Name]; ok {
			if a := sc.g.addrOf(cell); a != nil {
				return a, a.RootT, nil
			}
		}
	}
	return nil, nil, fmt.Errorf("%s does not denote a location", ExprString(e))
}

func (sc *SCtx) index(x *EIndex) (Val, error) {
	base, err := sc.eval(x.X)
	if err != nil {
		return Val{}, err
	}
	g := sc.g
	switch {
	case base.K == VSlice:
		i, err := sc.intTerm(x.I)
		if err != nil {
			return Val{}, err
		}
		et := base.Ty.Underlying().(*types.Slice).Elem()
		a := &Addr{Root: RElem, Ref: base.F[0].T, Idx: Add(base.F[1].T, i), RootT: et}
		return g.load(sc.state(), a, et), nil
	case base.K == VScalar && base.Ty != nil && isStringType(base.Ty):
		i, err := sc.intTerm(x.I)
		if err != nil {
			return Val{}, err
		}
		return scalar(App("vp_strat", SInt, base.T, i), types.Typ[types.Uint8]), nil
	case base.K == VScalar && base.Ty != nil:
		if mt, ok := base.Ty.Underlying().(*types.Map); ok {
			kv, err := sc.eval(x.I)
			if err != nil {
				return Val{}, err
			}
			kt := g.keyTerm(kv, mt.Key())
			v, _ := g.mapRead(sc.state(), base, base.Ty, kt)
			return v, nil
		}
	}
	return Val{}, fmt.Errorf("cannot index %s", ExprString(x.X))
}

func (sc *SCtx) sliceExpr(x *ESlice) (Val, error) {
	base, err := sc.eval(x.X)
	if err != nil {
		return Val{}, err
	}
	if base.K != VSlice {
		return Val{}, fmt.Errorf("cannot slice %s", ExprString(x.X))
	}
	lo, hi := IntLit(0), base.F[2].T
	if x.Lo != nil {
		if lo, err = sc.intTerm(x.Lo); err != nil {
			return Val{}, err
		}
	}
	if x.Hi != nil {
		if hi, err = sc.intTerm(x.Hi); err != nil {
			return Val{}, err
		}
	}
	return Val{K: VSlice, Ty: base.Ty, F: []Val{base.F[0], scalar(Add(base.F[1].T, lo), nil), scalar(Sub(hi, lo), nil), scalar(Sub(base.F[3].T, lo), nil)}}, nil
}

func (sc *SCtx) quant(x *EQuant) (Val, error) {
	saved := map[string]Val{}
	var bvs []*Term
	var ranges []*Term
	for _, qv := range x.Vars {
		ty, err := sc.typeByName(qv.Type)
		if err != nil {
			return Val{}, err
		}
		s := scalarSort(ty)
		if s == nil {
			// struct-typed variable: ranges over the key encoding of the struct
			if _, isStruct := ty.Underlying().(*types.Struct); !isStruct {
				return Val{}, fmt.Errorf("quantified variable %s: unsupported type %s", qv.Name, qv.Type)
			}
			sc.g.nbound++
			bv := BoundVar(fmt.Sprintf("%s!%d", qv.Name, sc.g.nbound), SInt)
			bvs = append(bvs, bv)
			if old, ok := sc.bound[qv.Name]; ok {
				saved[qv.Name] = old
			}
			sc.bound[qv.Name] = sc.g.keyVal(sc.state(), bv, ty)
			continue
		}
		sc.g.nbound++
		bv := BoundVar(fmt.Sprintf("%s!%d", qv.Name, sc.g.nbound), s)
		bvs = append(bvs, bv)
		if old, ok := sc.bound[qv.Name]; ok {
			saved[qv.Name] = old
		}
		sc.bound[qv.Name] = scalar(bv, ty)
		ranges = append(ranges, inRange(bv, ty))
	}
	body, err := sc.boolTerm(x.Body)
	for _, qv := range x.Vars {
		delete(sc.bound, qv.Name)
		if old, ok := saved[qv.Name]; ok {
			sc.bound[qv.Name] = old
		}
	}
	if err != nil {
		return Val{}, err
	}
	if x.Forall {
		return scalar(Forall(bvs, Implies(And(ranges...), body)), types.Typ[types.Bool]), nil
	}
	return scalar(Exists(bvs, And(And(ranges...), body)), types.Typ[types.Bool]), nil
}

func (sc *SCtx) call(x *ECall) (Val, error) {
	g := sc.g
	// conversions and builtins
	if id, ok := x.Fun.(*EIdent); ok {
		switch id.Name {
		case "len", "cap":
			if len(x.Args) != 1 {
				return Val{}, fmt.Errorf("%s takes one argument", id.Name)
			}
			v, err := sc.eval(x.Args[0])
			if err != nil {
				return Val{}, err
			}
			if id.Name == "cap" && v.K == VSlice {
				return scalar(v.F[3].T, types.Typ[types.Int]), nil
			}
			if v.Ty != nil {
				if t := g.lenOf(sc.state(), v, v.Ty); t != nil {
					return scalar(t, types.Typ[types.Int]), nil
				}
			}
			return Val{}, fmt.Errorf("len of %s", ExprString(x.Args[0]))
		case "ite":
			if len(x.Args) != 3 {
				return Val{}, fmt.Errorf("ite takes three arguments")
			}
			c, err := sc.boolTerm(x.Args[0])
			if err != nil {
				return Val{}, err
			}
			a, err := sc.eval(x.Args[1])
			if err != nil {
				return Val{}, err
			}
			b, err := sc.eval(x.Args[2])
			if err != nil {
				return Val{}, err
			}
			if a.K != VScalar || b.K != VScalar || a.T.S != b.T.S {
				return Val{}, fmt.Errorf("ite branches must be scalars of one sort")
			}
			ty := a.Ty
			if ty == mathInt {
				ty = b.Ty
			}
			return scalar(Ite(c, a.T, b.T), ty), nil
		case "errIs":
			if len(x.Args) != 2 {
				return Val{}, fmt.Errorf("errIs takes two arguments")
			}
			a, err := sc.eval(x.Args[0])
			if err != nil {
				return Val{}, err
			}
			b, err := sc.eval(x.Args[1])
			if err != nil {
				return Val{}, err
			}
			return scalar(g.errIs(a.T, b.T), types.Typ[types.Bool]), nil
		case "seen":
			return sc.seen(x)
		case "atcall":
			// atcall("Callee", k, e): e in the state just before the k-th call of Callee
			// (in generation order) — names a point inside the body, e.g. the moment a
			// lock was taken
			if len(x.Args) != 3 {
				return Val{}, fmt.Errorf("atcall takes (\"callee\", ordinal, expr)")
			}
			nm, ok1 := x.Args[0].(*EStrL)
			on, ok2 := x.Args[1].(*EInt)
			if !ok1 || !ok2 {
				return Val{}, fmt.Errorf("atcall takes (\"callee\", ordinal, expr)")
			}
			ord, _ := strconv.Atoi(on.V)
			var sts []*State
			hits := 0
			for k, v := range g.callStates {
				if k == nm.V || strings.HasSuffix(k, "."+nm.V) || strings.HasSuffix(k, "/"+nm.V) {
					sts = v
					hits++
				}
			}
			if hits != 1 || ord >= len(sts) {
				return Val{}, fmt.Errorf("atcall: call %s#%d not seen before this point (%d callees match)", nm.V, ord, hits)
			}
			saved := sc.atSt
			sc.atSt = sts[ord]
			v, err := sc.eval(x.Args[2])
			sc.atSt = saved
			return v, err
		case "as":
			// as(x, T): the interface value x viewed as its concrete type T
			if len(x.Args) != 2 {
				return Val{}, fmt.Errorf("as(x, T) takes two arguments")
			}
			v, err := sc.eval(x.Args[0])
			if err != nil {
				return Val{}, err
			}
			ty, err := sc.typeByName(ExprString(x.Args[1]))
			if err != nil {
				return Val{}, err
			}
			if v.K != VScalar {
				return Val{}, fmt.Errorf("as: not an interface value")
			}
			return scalar(v.T, ty), nil
		case "ghost", "ghset":
			// ghost(name, obj): ghost integer field of an object;
			// ghset(name, obj, key): membership in a ghost set owned by the object
			return sc.ghostRead(id.Name, x.Args)
		case "fresh":
			// fresh(x): the slice's backing array / the object was allocated during the call
			if len(x.Args) != 1 {
				return Val{}, fmt.Errorf("fresh takes one argument")
			}
			v, err := sc.eval(x.Args[0])
			if err != nil {
				return Val{}, err
			}
			if sc.old == nil {
				return Val{}, fmt.Errorf("fresh() needs a pre-state")
			}
			var ref *Term
			switch {
			case v.K == VSlice:
				ref = v.F[0].T
			case v.K == VScalar && v.T != nil && v.T.S == SInt:
				ref = v.T
			default:
				return Val{}, fmt.Errorf("fresh: not a reference")
			}
			return scalar(Gt(ref, sc.old.Clk), types.Typ[types.Bool]), nil
		case "str":
			// str(b): the string made of the bytes of slice b (Go's string(b))
			if len(x.Args) != 1 {
				return Val{}, fmt.Errorf("str takes one argument")
			}
			v, err := sc.eval(x.Args[0])
			if err != nil {
				return Val{}, err
			}
			if v.K == VScalar && v.T != nil && v.T.S == SStr {
				return v, nil
			}
			if v.K != VSlice || !isByteSlice(v.Ty) {
				return Val{}, fmt.Errorf("str: not a byte slice")
			}
			h := sc.g.heapGet(sc.state(), "E:uint8", ArraySort(SInt, ArraySort(SInt, SInt)))
			t := App("vp_bytesstr", SStr, Select(h, v.F[0].T), v.F[1].T, v.F[2].T)
			return scalar(t, types.Typ[types.String]), nil
		case "bytes":
			// bytes(s): the byte slice Go's []byte(s) gives. It lives at a ghost
			// reference (negative: never allocated, never nil, never written) that
			// is a function of the string; its contents are the bytes of s in every
			// heap version it is read from.
			if len(x.Args) != 1 {
				return Val{}, fmt.Errorf("bytes takes one argument")
			}
			v, err := sc.eval(x.Args[0])
			if err != nil {
				return Val{}, err
			}
			if v.K == VSlice && isByteSlice(v.Ty) {
				return v, nil
			}
			if v.K != VScalar || v.T == nil || v.T.S != SStr {
				return Val{}, fmt.Errorf("bytes: not a string")
			}
			g := sc.g
			ref := App("vp_bytesref", SInt, v.T)
			n := App("vp_strlen", SInt, v.T)
			g.strlenNonNeg(v.T)
			cont := App("vp_strbytes", ArraySort(SInt, SInt), v.T)
			h := g.heapGet(sc.state(), "E:uint8", ArraySort(SInt, ArraySort(SInt, SInt)))
			g.assume(Lt(ref, IntLit(0)))
			g.assume(Eq(Select(h, ref), cont))
			g.assume(Eq(App("vp_bytesstr", SStr, cont, IntLit(0), n), v.T))
			bt := types.NewSlice(types.Typ[types.Uint8])
			return Val{K: VSlice, Ty: bt, F: []Val{scalar(ref, nil), scalar(IntLit(0), nil), scalar(n, nil), scalar(n, nil)}}, nil
		case "new":
			// new(x) in a loop invariant: allocated since the loop was entered
			if len(x.Args) != 1 {
				return Val{}, fmt.Errorf("new takes one argument")
			}
			li := sc.g.loops[sc.loopHeader]
			if sc.loopHeader == nil || li == nil || li.PreState == nil {
				return Val{}, fmt.Errorf("new() is only meaningful in a loop invariant")
			}
			v, err := sc.eval(x.Args[0])
			if err != nil {
				return Val{}, err
			}
			switch {
			case v.K == VSlice:
				return scalar(Gt(v.F[0].T, li.PreState.Clk), types.Typ[types.Bool]), nil
			case v.K == VScalar && v.T != nil && v.T.S == SInt:
				return scalar(Gt(v.T, li.PreState.Clk), types.Typ[types.Bool]), nil
			}
			return Val{}, fmt.Errorf("new: not a reference")
		case "separate":
			// separate(a, b): the two slices have different backing arrays
			if len(x.Args) != 2 {
				return Val{}, fmt.Errorf("separate takes two slices")
			}
			a, err := sc.eval(x.Args[0])
			if err != nil {
				return Val{}, err
			}
			b, err := sc.eval(x.Args[1])
			if err != nil {
				return Val{}, err
			}
			if a.K != VSlice || b.K != VSlice {
				return Val{}, fmt.Errorf("separate takes two slices")
			}
			return scalar(Ne(a.F[0].T, b.F[0].T), types.Typ[types.Bool]), nil
		case "disjoint":
			// disjoint(w, r): the writable window of slice w (off..off+cap) does not
			// overlap the readable window of slice r (off..off+len)
			if len(x.Args) != 2 {
				return Val{}, fmt.Errorf("disjoint takes two slices")
			}
			w, err := sc.eval(x.Args[0])
			if err != nil {
				return Val{}, err
			}
			r, err := sc.eval(x.Args[1])
			if err != nil {
				return Val{}, err
			}
			if w.K != VSlice || r.K != VSlice {
				return Val{}, fmt.Errorf("disjoint takes two slices")
			}
			t := Or(Ne(w.F[0].T, r.F[0].T), Le(Add(w.F[1].T, w.F[3].T), r.F[1].T), Le(Add(r.F[1].T, r.F[2].T), w.F[1].T))
			return scalar(t, types.Typ[types.Bool]), nil
		case "inmap":
			// inmap(m, k): k is a key of m
			if len(x.Args) != 2 {
				return Val{}, fmt.Errorf("inmap takes two arguments")
			}
			m, err := sc.eval(x.Args[0])
			if err != nil {
				return Val{}, err
			}
			k, err := sc.eval(x.Args[1])
			if err != nil {
				return Val{}, err
			}
			mt, ok := m.Ty.Underlying().(*types.Map)
			if !ok {
				return Val{}, fmt.Errorf("inmap: not a map")
			}
			_, in := g.mapRead(sc.state(), m, m.Ty, g.keyTerm(k, mt.Key()))
			return scalar(in, types.Typ[types.Bool]), nil
		case "typeIs":
			// typeIs(x, T): dynamic type of interface value x is T
			if len(x.Args) != 2 {
				return Val{}, fmt.Errorf("typeIs takes two arguments")
			}
			v, err := sc.eval(x.Args[0])
			if err != nil {
				return Val{}, err
			}
			ty, err := sc.typeByName(ExprString(x.Args[1]))
			if err != nil {
				return Val{}, err
			}
			return scalar(And(Ne(v.T, IntLit(0)), Eq(App("vp_dyntype", SInt, v.T), typeID(ty))), types.Typ[types.Bool]), nil
		}
		// conversion to a basic integer type
		if o := types.Universe.Lookup(id.Name); o != nil {
			if tn, ok := o.(*types.TypeName); ok && len(x.Args) == 1 {
				v, err := sc.eval(x.Args[0])
				if err != nil {
					return Val{}, err
				}
				return sc.convert(v, tn.Type())
			}
		}
		if d, ok := g.P.Defines[id.Name]; ok {
			return sc.defineCall(d, x.Args)
		}
		// uninterpreted ghost function
		if uf, ok := g.P.UFuns[id.Name]; ok {
			return sc.ufunCall(uf, x.Args)
		}
		// named type conversion or spec function in package scope
		if o := sc.pkgScopeLookup(id.Name); o != nil {
			switch ob := o.(type) {
			case *types.TypeName:
				if len(x.Args) == 1 {
					v, err := sc.eval(x.Args[0])
					if err != nil {
						return Val{}, err
					}
					return sc.convert(v, ob.Type())
				}
			case *types.Func:
				return sc.funcCall(ob, nil, x.Args)
			}
		}
		return Val{}, fmt.Errorf("unknown function %s", id.Name)
	}
	if sel, ok := x.Fun.(*ESel); ok {
		// pkg.Func(...) or recv.Method(...)
		if id, ok := sel.X.(*EIdent); ok {
			if _, err := sc.ident(id.Name); err != nil {
				if p := sc.importedPkg(id.Name); p != nil {
					if o := p.Scope().Lookup(sel.Name); o != nil {
						switch ob := o.(type) {
						case *types.Func:
							return sc.funcCall(ob, nil, x.Args)
						case *types.TypeName:
							if len(x.Args) == 1 {
								v, err := sc.eval(x.Args[0])
								if err != nil {
									return Val{}, err
								}
								return sc.convert(v, ob.Type())
							}
						}
					}
				}
			}
		}
		recv, err := sc.eval(sel.X)
		if err != nil {
			return Val{}, err
		}
		var rt types.Type
		if recv.K == VAddr {
			rt = types.NewPointer(typeAt(recv.A.RootT, recv.A.Path))
		} else {
			rt = recv.Ty
		}
		if rt == nil {
			return Val{}, fmt.Errorf("method call on untyped value %s", ExprString(sel.X))
		}
		obj, _, _ := types.LookupFieldOrMethod(rt, true, nil, sel.Name)
		if obj == nil {
			if n, ok := derefNamed(rt); ok {
				obj, _, _ = types.LookupFieldOrMethod(rt, true, n.Obj().Pkg(), sel.Name)
			}
		}
		if fn, ok := obj.(*types.Func); ok {
			if isIfaceType(rt) {
				return sc.ifaceCall(rt, fn, recv, x.Args)
			}
			return sc.funcCall(fn, &recv, x.Args)
		}
		return Val{}, fmt.Errorf("no method %s on %s", sel.Name, typeStr(rt))
	}
	return Val{}, fmt.Errorf("unsupported call %s", ExprString(x))
}

func derefNamed(t types.Type) (*types.Named, bool) {
	if p, ok := t.(*types.Pointer); ok {
		t = p.Elem()
	}
	n, ok := t.(*types.Named)
	return n, ok
}

func (sc *SCtx) convert(v Val, to types.Type) (Val, error) {
	if v.K != VScalar || v.T == nil {
		return Val{}, fmt.Errorf("conversion of non-scalar")
	}
	if _, _, ok := intRange(to); ok && v.T.S == SInt {
		if v.Ty != nil && v.Ty != mathInt && rangeWithin(v.Ty, to) {
			return scalar(v.T, to), nil
		}
		if v.T.Op == "int" {
			return scalar(wrapMod(v.T, to), to), nil
		}
		return scalar(wrapMod(v.T, to), to), nil
	}
	if scalarSort(to) == v.T.S {
		return scalar(v.T, to), nil
	}
	return Val{}, fmt.Errorf("unsupported conversion to %s", typeStr(to))
}

// funcCall: a pure function used inside a contract. Spec functions are unfolded;
// other pure functions become uninterpreted applications over args (and the heap
// components they may read are not tracked: only `pure` functions of their
// arguments are allowed).
func (sc *SCtx) funcCall(fn *types.Func, recv *Val, argEs []Expr) (Val, error) {
	g := sc.g
	var args []Val
	if recv != nil {
		args = append(args, *recv)
	}
	for _, a := range argEs {
		v, err := sc.eval(a)
		if err != nil {
			return Val{}, err
		}
		args = append(args, v)
	}
	sf := g.P.Prog.FuncValue(fn)
	if sf == nil {
		return Val{}, fmt.Errorf("function %s has no SSA form", fn.Name())
	}
	key := FuncKey(sf)
	c := g.P.ContractFor(key)
	sig := fn.Type().(*types.Signature)
	var resTy types.Type = sig.Results()
	if sig.Results().Len() == 1 {
		resTy = sig.Results().At(0).Type()
	}
	if c != nil && c.Spec && sf.Blocks != nil {
		if len(args) != len(sf.Params) {
			return Val{}, fmt.Errorf("%s: wrong number of arguments", fn.Name())
		}
		// untyped literals take the parameter type
		for i := range args {
			if args[i].Ty == mathInt || args[i].Ty == nil {
				args[i].Ty = sf.Params[i].Type()
			}
		}
		return g.specCall(sc.state(), sf, c, args, resTy, 0), nil
	}
	if c != nil && c.Pure {
		// accessor-like pure function: apply its contract in place (no obligations)
		saved := g.quiet
		g.quiet = true
		names := g.calleeNames(sf, sig, c)
		st := sc.state().clone()
		r := g.applyContract(st, c, key, names, args, sig, resTy, 0, true)
		g.quiet = saved
		return r, nil
	}
	return Val{}, fmt.Errorf("function %s is not declared spec or pure", ShortKey(key))
}

func (sc *SCtx) ufunCall(uf *UFun, argEs []Expr) (Val, error) {
	g := sc.g
	var flat []*Term
	for _, a := range argEs {
		v, err := sc.eval(a)
		if err != nil {
			return Val{}, err
		}
		if v.K == VAddr {
			v = g.firstClass(v, "ghost function argument")
		}
		flat = append(flat, g.flattenArg(sc.state(), v, v.Ty)...)
	}
	rt, err := sc.typeByName(uf.Result)
	if err != nil {
		return Val{}, err
	}
	s := scalarSort(rt)
	if s == nil {
		return Val{}, fmt.Errorf("ghost function %s: non-scalar result", uf.Name)
	}
	r := App("vp_ghost!"+uf.Name, s, flat...)
	if _, _, ok := intRange(rt); ok {
		g.assume(inRange(r, rt))
	}
	return scalar(r, rt), nil
}

// seen(N, k): key k was already produced by the map range of loop N.
func (sc *SCtx) seen(x *ECall) (Val, error) {
	g := sc.g
	if len(x.Args) != 2 {
		return Val{}, fmt.Errorf("seen(loop, key) takes two arguments")
	}
	n, ok := x.Args[0].(*EInt)
	if !ok {
		return Val{}, fmt.Errorf("seen: loop ordinal must be a literal")
	}
	var ord int
	fmt.Sscanf(n.V, "%d", &ord)
	if ord < 0 || ord >= len(g.cfg.LoopSeq) {
		return Val{}, fmt.Errorf("seen: no loop %d", ord)
	}
	l := g.cfg.LoopSeq[ord]
	var rng *ssa.Range
	// the iterator advanced in the loop's own header (a nested loop has its own)
	for _, in := range l.Header.Instrs {
		if nx, ok := in.(*ssa.Next); ok {
			if r, ok := nx.Iter.(*ssa.Range); ok {
				rng = r
			}
		}
	}
	if rng == nil {
		// otherwise the iterator advanced in a block of this loop that belongs to no
		// inner loop
		inner := map[*ssa.BasicBlock]bool{}
		for _, l2 := range g.cfg.LoopSeq {
			if l2 != l && l.Blocks[l2.Header] {
				for b := range l2.Blocks {
					inner[b] = true
				}
			}
		}
		for _, b := range g.Fn.Blocks {
			if !l.Blocks[b] || inner[b] {
				continue
			}
			for _, in := range b.Instrs {
				if nx, ok := in.(*ssa.Next); ok {
					if r, ok := nx.Iter.(*ssa.Range); ok && rng == nil {
						rng = r
					}
				}
			}
		}
	}
	if rng == nil {
		return Val{}, fmt.Errorf("seen: loop %d is not a map range", ord)
	}
	mt := rng.X.Type().Underlying().(*types.Map)
	mi := g.mapInfo(rng.X.Type())
	k, err := sc.eval(x.Args[1])
	if err != nil {
		return Val{}, err
	}
	seen := g.heapGet(sc.state(), g.seenName(rng), ArraySort(mi.ks, SBool))
	return scalar(Select(seen, g.keyTerm(k, mt.Key())), types.Typ[types.Bool]), nil
}

// errIs is the uninterpreted predicate behind errors.Is.
func (g *Gen) errIs(e, target *Term) *Term {
	r := App("vp_errIs", SBool, e, target)
	// errors.Is(nil, t) == (t == nil)
	g.assume(Implies(Eq(e, IntLit(0)), Eq(r, Eq(target, IntLit(0)))))
	return r
}

// defineCall expands a specification macro.
func (sc *SCtx) defineCall(d *Define, argEs []Expr) (Val, error) {
	if len(argEs) != len(d.Params) {
		return Val{}, fmt.Errorf("%s: expected %d arguments", d.Name, len(d.Params))
	}
	if sc.depth > 8 {
		return Val{}, fmt.Errorf("%s: define expansion too deep (recursive?)", d.Name)
	}
	args := make([]Val, len(argEs))
	for i, a := range argEs {
		v, err := sc.eval(a)
		if err != nil {
			return Val{}, err
		}
		args[i] = v
	}
	saved := sc.bound
	nb := map[string]Val{}
	for i, p := range d.Params {
		nb[p.Name] = args[i]
	}
	// macros see only their parameters (plus package scope)
	sub := *sc
	sub.bound = nb
	sub.vars = nil
	sub.lookup = nil
	sub.useParams = false
	sub.depth = sc.depth + 1
	if d.Pkg != "" {
		// names inside the macro resolve in the package that states it
		for _, pk := range sc.g.P.Pkgs {
			if pk.PkgPath == d.Pkg && pk.Types != nil {
				sub.pkg = pk.Types
			}
		}
	}
	v, err := sub.eval(d.Body)
	sc.bound = saved
	if err != nil {
		return Val{}, fmt.Errorf("in define %s: %v", d.Name, err)
	}
	if d.Result != "" && v.K == VScalar {
		if rt, err := sc.typeByName(d.Result); err == nil {
			v.Ty = rt
		}
	}
	return v, nil
}

// ifaceCall: a pure interface method used inside a contract.
func (sc *SCtx) ifaceCall(it types.Type, fn *types.Func, recv Val, argEs []Expr) (Val, error) {
	g := sc.g
	args := []Val{recv}
	for _, a := range argEs {
		v, err := sc.eval(a)
		if err != nil {
			return Val{}, err
		}
		args = append(args, v)
	}
	if f, rv, ok := g.devirtualize(sc.state(), it, fn, recv); ok {
		key := FuncKey(f)
		c := g.P.ContractFor(key)
		if c == nil || !c.Pure {
			return Val{}, fmt.Errorf("method %s is not declared pure", ShortKey(key))
		}
		args[0] = rv
		sig := f.Signature
		var resTy types.Type = sig.Results()
		if sig.Results().Len() == 1 {
			resTy = sig.Results().At(0).Type()
		}
		saved := g.quiet
		g.quiet = true
		st := sc.state().clone()
		r := g.applyContract(st, c, key, g.calleeNames(f, sig, c), args, sig, resTy, 0, true)
		g.quiet = saved
		return r, nil
	}
	key := ifaceMethodKey(it, fn)
	c := g.P.ContractFor(key)
	if c == nil || !c.Pure {
		return Val{}, fmt.Errorf("interface method %s has no pure contract", ShortKey(key))
	}
	sig := fn.Type().(*types.Signature)
	var resTy types.Type = sig.Results()
	if sig.Results().Len() == 1 {
		resTy = sig.Results().At(0).Type()
	}
	names := []string{"recv"}
	for i := 0; i < sig.Params().Len(); i++ {
		names = append(names, sig.Params().At(i).Name())
	}
	if len(c.Params) > 0 {
		copy(names, c.Params)
	}
	saved := g.quiet
	g.quiet = true
	st := sc.state().clone()
	r := g.applyContract(st, c, key, names, args, sig, resTy, 0, false)
	g.quiet = saved
	return r, nil
}

func ghostRef(v Val) (*Term, bool) {
	switch {
	case v.K == VScalar && v.T != nil && v.T.S == SInt:
		return v.T, true
	case v.K == VAddr && v.A != nil && v.A.Root == RObj && len(v.A.Path) == 0:
		return v.A.Ref, true
	}
	return nil, false
}

func (sc *SCtx) ghostRead(kind string, args []Expr) (Val, error) {
	g := sc.g
	if len(args) < 2 {
		return Val{}, fmt.Errorf("%s(name, object, ...) needs a name and an object", kind)
	}
	id, ok := args[0].(*EIdent)
	if !ok {
		return Val{}, fmt.Errorf("%s: the first argument is the ghost name", kind)
	}
	ov, err := sc.eval(args[1])
	if err != nil {
		return Val{}, err
	}
	ref, ok := ghostRef(ov)
	if !ok {
		return Val{}, fmt.Errorf("%s: %s is not an object reference", kind, ExprString(args[1]))
	}
	if kind == "ghost" {
		if len(args) != 2 {
			return Val{}, fmt.Errorf("ghost(name, object)")
		}
		h := g.heapGet(sc.state(), "O:ghost."+id.Name, ArraySort(SInt, SInt))
		return scalar(Select(h, ref), types.Typ[types.Int64]), nil
	}
	if len(args) != 3 {
		return Val{}, fmt.Errorf("ghset(name, object, key)")
	}
	kv, err := sc.eval(args[2])
	if err != nil {
		return Val{}, err
	}
	if kv.K != VScalar || kv.T == nil {
		return Val{}, fmt.Errorf("ghset: key must be a scalar")
	}
	h := g.heapGet(sc.state(), "M:ghost."+id.Name+":"+kv.T.S.String(), ArraySort(SInt, ArraySort(kv.T.S, SBool)))
	return scalar(Select(Select(h, ref), kv.T), types.Typ[types.Bool]), nil
}

// ghostLoc resolves a modifies entry ghost(name, obj) / ghset(name, obj) to the
// component(s) and object reference it names.
func (sc *SCtx) ghostLoc(m Expr) (comps []string, ref *Term, ok bool, err error) {
	call, isCall := m.(*ECall)
	if !isCall {
		return nil, nil, false, nil
	}
	id, isId := call.Fun.(*EIdent)
	if !isId || (id.Name != "ghost" && id.Name != "ghset") {
		return nil, nil, false, nil
	}
	if len(call.Args) != 2 {
		return nil, nil, true, fmt.Errorf("%s(name, object) in a modifies clause", id.Name)
	}
	nm, isN := call.Args[0].(*EIdent)
	if !isN {
		return nil, nil, true, fmt.Errorf("%s: the first argument is the ghost name", id.Name)
	}
	ov, e := sc.eval(call.Args[1])
	if e != nil {
		return nil, nil, true, e
	}
	r, isRef := ghostRef(ov)
	if !isRef {
		return nil, nil, true, fmt.Errorf("%s: not an object reference", id.Name)
	}
	g := sc.g
	if id.Name == "ghost" {
		n := "O:ghost." + nm.Name
		g.heapGet(sc.state(), n, ArraySort(SInt, SInt))
		return []string{n}, r, true, nil
	}
	pre := "M:ghost." + nm.Name + ":"
	for _, n := range g.uniOrder {
		if strings.HasPrefix(n, pre) {
			comps = append(comps, n)
		}
	}
	return comps, r, true, nil
}

// hiddenPhi: the header phi that a source variable of a range-over-int loop copies.
func (g *Gen) hiddenPhi(h *ssa.BasicBlock, name string) *ssa.Phi {
	for _, c := range g.debugVals[name] {
		if phi, ok := c.V.(*ssa.Phi); ok && phi.Block() == h && phi.Comment != name {
			return phi
		}
	}
	return nil
}
