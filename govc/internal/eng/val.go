package eng

import (
	"fmt"
	"go/types"
	"math/big"
	"strings"

	"golang.org/x/tools/go/ssa"
)

type VKind int

const (
	VScalar VKind = iota
	VSlice        // F = arr, off, len, cap
	VStruct       // F = fields
	VTuple        // F = components
	VAddr         // symbolic address
	VOpaque       // unmodelled value (arrays as values, floats, complex)
)

type Val struct {
	K    VKind
	T    *Term
	F    []Val
	A    *Addr
	Ty   types.Type
	KeyT *Term // struct value decoded from a map key: the key's index term
}

const (
	RObj = iota
	RElem
	RLocal
	RGlobal
)

type Addr struct {
	Root  int
	Ref   *Term // RObj: object ref; RElem: backing array ref
	Idx   *Term // RElem: absolute element index
	Local *ssa.Alloc
	Glob  *ssa.Global
	RootT types.Type
	Path  []int
}

func (a *Addr) field(i int) *Addr {
	b := *a
	b.Path = append(append([]int{}, a.Path...), i)
	return &b
}

func qual(p *types.Package) string {
	if p == nil {
		return ""
	}
	return strings.TrimPrefix(p.Path(), ModPath+"/")
}

// typeStr is a canonical type name (byte == uint8, rune == int32).
func typeStr(t types.Type) string {
	switch u := t.(type) {
	case *types.Basic:
		switch u.Kind() {
		case types.Uint8:
			return "uint8"
		case types.Int32:
			return "int32"
		}
		return u.Name()
	case *types.Slice:
		return "[]" + typeStr(u.Elem())
	case *types.Pointer:
		return "*" + typeStr(u.Elem())
	case *types.Array:
		return fmt.Sprintf("[%d]%s", u.Len(), typeStr(u.Elem()))
	case *types.Map:
		return "map[" + typeStr(u.Key()) + "]" + typeStr(u.Elem())
	case *types.Alias:
		return typeStr(types.Unalias(u))
	}
	return types.TypeString(t, qual)
}

// typeAt follows a field path.
func typeAt(t types.Type, path []int) types.Type {
	for _, i := range path {
		st, ok := t.Underlying().(*types.Struct)
		if !ok {
			panic(fmt.Sprintf("typeAt: %s is not a struct", t))
		}
		t = st.Field(i).Type()
	}
	return t
}

func pathStr(t types.Type, path []int) string {
	var sb strings.Builder
	for _, i := range path {
		st := t.Underlying().(*types.Struct)
		sb.WriteByte('.')
		sb.WriteString(st.Field(i).Name())
		t = st.Field(i).Type()
	}
	return sb.String()
}

// ---------------------------------------------------------------- integer types

func intInfo(t types.Type) (bits int, signed bool, ok bool) {
	b, isB := t.Underlying().(*types.Basic)
	if !isB {
		return 0, false, false
	}
	switch b.Kind() {
	case types.Int8:
		return 8, true, true
	case types.Int16:
		return 16, true, true
	case types.Int32:
		return 32, true, true
	case types.Int64, types.Int:
		return 64, true, true
	case types.Uint8:
		return 8, false, true
	case types.Uint16:
		return 16, false, true
	case types.Uint32:
		return 32, false, true
	case types.Uint64, types.Uint, types.Uintptr:
		return 64, false, true
	case types.UntypedInt, types.UntypedRune:
		return 0, true, true // mathematical
	}
	return 0, false, false
}

func intRange(t types.Type) (lo, hi *big.Int, ok bool) {
	bits, signed, ok := intInfo(t)
	if !ok || bits == 0 {
		return nil, nil, false
	}
	one := big.NewInt(1)
	if signed {
		hi = new(big.Int).Sub(new(big.Int).Lsh(one, uint(bits-1)), one)
		lo = new(big.Int).Neg(new(big.Int).Lsh(one, uint(bits-1)))
	} else {
		lo = big.NewInt(0)
		hi = new(big.Int).Sub(new(big.Int).Lsh(one, uint(bits)), one)
	}
	return lo, hi, true
}

func inRange(x *Term, t types.Type) *Term {
	lo, hi, ok := intRange(t)
	if !ok {
		return True
	}
	return And(Le(BigLit(lo), x), Le(x, BigLit(hi)))
}

// wrap1 re-centres a value that is at most one modulus out of range (add/sub results).
func wrap1(x *Term, t types.Type) *Term {
	lo, hi, ok := intRange(t)
	if !ok {
		return x
	}
	if x.Op == "int" {
		return wrapMod(x, t)
	}
	m := new(big.Int).Add(new(big.Int).Sub(hi, lo), big.NewInt(1))
	return Ite(Gt(x, BigLit(hi)), Sub(x, BigLit(m)), Ite(Lt(x, BigLit(lo)), Add(x, BigLit(m)), x))
}

// wrapMod re-centres an arbitrary integer into the type's range.
func wrapMod(x *Term, t types.Type) *Term {
	lo, hi, ok := intRange(t)
	if !ok {
		return x
	}
	m := new(big.Int).Add(new(big.Int).Sub(hi, lo), big.NewInt(1))
	if x.Op == "int" {
		v := new(big.Int).Sub(x.IV, lo)
		v.Mod(v, m)
		v.Add(v, lo)
		return BigLit(v)
	}
	if lo.Sign() == 0 {
		return EMod(x, BigLit(m))
	}
	return Add(EMod(Sub(x, BigLit(lo)), BigLit(m)), BigLit(lo))
}

func rangeWithin(from, to types.Type) bool {
	fl, fh, ok1 := intRange(from)
	tl, th, ok2 := intRange(to)
	if !ok1 || !ok2 {
		return false
	}
	return fl.Cmp(tl) >= 0 && fh.Cmp(th) <= 0
}

// ---------------------------------------------------------------- sorts of Go types

func isStringType(t types.Type) bool {
	b, ok := t.Underlying().(*types.Basic)
	return ok && b.Info()&types.IsString != 0
}

func isFloatType(t types.Type) bool {
	b, ok := t.Underlying().(*types.Basic)
	return ok && b.Info()&(types.IsFloat|types.IsComplex) != 0
}

// scalarSort returns the SMT sort of a Go type represented by one term, or nil.
func scalarSort(t types.Type) *Sort {
	switch u := t.Underlying().(type) {
	case *types.Basic:
		switch {
		case u.Info()&types.IsBoolean != 0:
			return SBool
		case u.Info()&types.IsInteger != 0:
			return SInt
		case u.Info()&types.IsString != 0:
			return SStr
		case u.Kind() == types.UnsafePointer || u.Kind() == types.UntypedNil:
			return SInt
		case u.Info()&(types.IsFloat|types.IsComplex) != 0:
			return SInt // uninterpreted: never computed with
		}
	case *types.Pointer, *types.Map, *types.Chan, *types.Signature, *types.Interface:
		return SInt
	case *types.TypeParam:
		return SInt
	}
	return nil
}

type leaf struct {
	Path string // textual suffix for component naming
	Sort *Sort
	Ty   types.Type
	// access from a Val: sequence of F indices
	Acc []int
}

// leavesOf enumerates the scalar leaves of a type (struct fields flattened, slices as 4 leaves).
func leavesOf(t types.Type) []leaf {
	var out []leaf
	var rec func(t types.Type, p string, acc []int)
	rec = func(t types.Type, p string, acc []int) {
		if s := scalarSort(t); s != nil {
			out = append(out, leaf{Path: p, Sort: s, Ty: t, Acc: append([]int{}, acc...)})
			return
		}
		switch u := t.Underlying().(type) {
		case *types.Slice:
			for i, n := range []string{"arr", "off", "len", "cap"} {
				out = append(out, leaf{Path: p + "#" + n, Sort: SInt, Ty: types.Typ[types.Int], Acc: append(append([]int{}, acc...), i)})
			}
		case *types.Struct:
			for i := 0; i < u.NumFields(); i++ {
				rec(u.Field(i).Type(), p+"."+u.Field(i).Name(), append(acc, i))
			}
		case *types.Array:
			// arrays as values are not modelled (opaque)
		case *types.Tuple:
			for i := 0; i < u.Len(); i++ {
				rec(u.At(i).Type(), fmt.Sprintf("%s!%d", p, i), append(acc, i))
			}
		}
	}
	rec(t, "", nil)
	return out
}

func (v Val) at(acc []int) Val {
	for _, i := range acc {
		if i >= len(v.F) {
			return Val{K: VOpaque}
		}
		v = v.F[i]
	}
	return v
}

// mapLeaves rebuilds a Val of type t from per-leaf terms, in leavesOf order.
func buildVal(t types.Type, next func(l leaf) *Term) Val {
	var rec func(t types.Type, p string) Val
	rec = func(t types.Type, p string) Val {
		if s := scalarSort(t); s != nil {
			return Val{K: VScalar, T: next(leaf{Path: p, Sort: s, Ty: t}), Ty: t}
		}
		switch u := t.Underlying().(type) {
		case *types.Slice:
			v := Val{K: VSlice, Ty: t}
			for _, n := range []string{"arr", "off", "len", "cap"} {
				v.F = append(v.F, Val{K: VScalar, T: next(leaf{Path: p + "#" + n, Sort: SInt, Ty: types.Typ[types.Int]}), Ty: types.Typ[types.Int]})
			}
			return v
		case *types.Struct:
			v := Val{K: VStruct, Ty: t}
			for i := 0; i < u.NumFields(); i++ {
				v.F = append(v.F, rec(u.Field(i).Type(), p+"."+u.Field(i).Name()))
			}
			return v
		case *types.Tuple:
			v := Val{K: VTuple, Ty: t}
			for i := 0; i < u.Len(); i++ {
				v.F = append(v.F, rec(u.At(i).Type(), fmt.Sprintf("%s!%d", p, i)))
			}
			return v
		}
		return Val{K: VOpaque, Ty: t}
	}
	return rec(t, "")
}

func scalar(t *Term, ty types.Type) Val { return Val{K: VScalar, T: t, Ty: ty} }

var emptyStr = Const("vp_str_empty", SStr)

func zeroTerm(s *Sort) *Term {
	switch s.K {
	case KBool:
		return False
	case KInt:
		return IntLit(0)
	case KStr:
		return emptyStr
	}
	panic("zeroTerm: " + s.String())
}

func zeroVal(t types.Type) Val {
	return buildVal(t, func(l leaf) *Term { return zeroTerm(l.Sort) })
}

func ConstArray(s *Sort, v *Term) *Term {
	return mk("constarr", "", s, nil, nil, v)
}
