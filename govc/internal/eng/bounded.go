package eng

import (
	"bytes"
	"encoding/json"
	"fmt"
	"os"
	"os/exec"
	"path/filepath"
	"strings"
	"time"
)

// A bounded stand-in executes the real code on a finite input space through an
// in-package test injected with go test -overlay. It is labelled "bounded" in
// evidence and never counted among the discharged obligations.
type BoundedSpec struct {
	Property    string            `json:"property"`
	Name        string            `json:"name"`
	Pkg         string            `json:"pkg"`
	File        string            `json:"file"`
	Run         string            `json:"run"`
	EnvQuick    map[string]string `json:"env_quick"`
	EnvThorough map[string]string `json:"env_thorough"`
	What        string            `json:"what"`
}

type BoundedResult struct {
	Spec    BoundedSpec
	Summary string
	Fails   []string
	Err     string
	Seconds float64
	Env     map[string]string
}

func runBounded(opts *CheckOpts) []BoundedResult {
	b, err := os.ReadFile(filepath.Join(opts.VerifDir, "bounded", "index.json"))
	if err != nil {
		return nil
	}
	var specs []BoundedSpec
	if err := json.Unmarshal(b, &specs); err != nil {
		return []BoundedResult{{Err: "bounded/index.json: " + err.Error()}}
	}
	var out []BoundedResult
	for _, s := range specs {
		if s.Property != opts.Prop {
			continue
		}
		start := time.Now()
		r := BoundedResult{Spec: s}
		env := s.EnvQuick
		if opts.Tier == "thorough" {
			env = s.EnvThorough
		}
		r.Env = env
		src, err := os.ReadFile(filepath.Join(opts.VerifDir, "bounded", s.File))
		if err != nil {
			r.Err = err.Error()
			out = append(out, r)
			continue
		}
		scratch := os.Getenv("VP_SCRATCH")
		if scratch == "" {
			scratch = fmt.Sprintf("/var/tmp/vp-%d", os.Getpid())
		}
		dir := filepath.Join(scratch, "bounded-"+s.Name)
		os.MkdirAll(dir, 0o755)
		tf := filepath.Join(dir, "zz_vp_bounded_test.go")
		os.WriteFile(tf, src, 0o644)
		target := filepath.Join(opts.RepoDir, s.Pkg, "zz_vp_bounded_test.go")
		ov, _ := json.Marshal(map[string]any{"Replace": map[string]string{target: tf}})
		ovf := filepath.Join(dir, "overlay.json")
		os.WriteFile(ovf, ov, 0o644)
		cmd := exec.Command("go", "test", "-tags", "verif", "-overlay", ovf, "-vet=off", "-count=1", "-v", "-timeout", "20m", "-run", s.Run, "./"+s.Pkg+"/")
		cmd.Dir = opts.RepoDir
		cmd.Env = append(os.Environ(), "GOFLAGS=-mod=mod", "GOPROXY=off")
		for k, v := range env {
			cmd.Env = append(cmd.Env, k+"="+v)
		}
		var ob bytes.Buffer
		cmd.Stdout = &ob
		cmd.Stderr = &ob
		runErr := cmd.Run()
		os.RemoveAll(dir)
		for _, l := range strings.Split(ob.String(), "\n") {
			if strings.HasPrefix(l, "VPB fail ") {
				r.Fails = append(r.Fails, strings.TrimPrefix(l, "VPB fail "))
			}
			if strings.HasPrefix(l, "VPB done ") {
				r.Summary = strings.TrimPrefix(l, "VPB done ")
			}
		}
		if r.Summary == "" {
			r.Err = fmt.Sprintf("bounded test did not complete: %v\n%s", runErr, tail(ob.String(), 2000))
		}
		r.Seconds = time.Since(start).Seconds()
		out = append(out, r)
	}
	return out
}

func tail(s string, n int) string {
	if len(s) > n {
		return s[len(s)-n:]
	}
	return s
}
