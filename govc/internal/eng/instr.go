package eng

import (
	"hash/fnv"
	"fmt"
	"go/constant"
	"go/token"
	"go/types"
	"math/big"

	"golang.org/x/tools/go/ssa"
)

func constantBool(c *ssa.Const) bool     { return constant.BoolVal(c.Value) }
func constantString(c *ssa.Const) string { return constant.StringVal(c.Value) }
func constantInt(c *ssa.Const) *big.Int {
	v := constant.ToInt(c.Value)
	if v.Kind() != constant.Int {
		return big.NewInt(0)
	}
	if i, ok := constant.Int64Val(v); ok {
		return big.NewInt(i)
	}
	b, _ := new(big.Int).SetString(v.ExactString(), 10)
	if b == nil {
		return big.NewInt(0)
	}
	return b
}

func (g *Gen) instr(st *State, in ssa.Instruction) {
	switch x := in.(type) {
	case *ssa.DebugRef:
		return
	case *ssa.BinOp:
		g.bind(st, x, g.binop(st, x))
	case *ssa.UnOp:
		g.unop(st, x)
	case *ssa.Alloc:
		g.alloc(st, x)
	case *ssa.FieldAddr:
		base := g.val(st, x.X)
		a := g.addrOf(base)
		if a == nil {
			g.unsupported("FieldAddr on %s", typeStr(x.X.Type()))
			g.env[x] = g.declare(st, x.Name(), x.Type())
			return
		}
		g.env[x] = Val{K: VAddr, Ty: x.Type(), A: a.field(x.Field)}
	case *ssa.Field:
		base := g.val(st, x.X)
		if base.K == VStruct && x.Field < len(base.F) {
			v := base.F[x.Field]
			v.Ty = x.Type()
			g.env[x] = v
		} else {
			g.env[x] = g.declare(st, x.Name(), x.Type())
		}
	case *ssa.IndexAddr:
		g.indexAddr(st, x)
	case *ssa.Index:
		g.index(st, x)
	case *ssa.Slice:
		g.slice(st, x)
	case *ssa.Store:
		addr := g.val(st, x.Addr)
		a := g.addrOf(addr)
		if a == nil {
			g.unsupported("Store through %s", typeStr(x.Addr.Type()))
			return
		}
		g.nilCheck(st, addr, x.Pos(), "store")
		v := g.val(st, x.Val)
		if v.K == VAddr {
			v = g.firstClass(v, "stored pointer")
		}
		g.store(st, a, x.Val.Type(), v)
	case *ssa.Phi:
		// handled by block()
	case *ssa.If:
		c := g.val(st, x.Cond)
		b := x.Block()
		ct := c.T
		if c.K != VScalar || ct == nil || ct.S != SBool {
			ct = g.fresh("cond", SBool)
		}
		g.edge[[2]int{b.Index, b.Succs[0].Index}] = And(st.Reach, ct)
		g.edge[[2]int{b.Index, b.Succs[1].Index}] = And(st.Reach, Not(ct))
	case *ssa.Jump:
		b := x.Block()
		g.edge[[2]int{b.Index, b.Succs[0].Index}] = st.Reach
	case *ssa.Return:
		g.ret(st, x)
	case *ssa.Panic:
		g.panicInstr(st, x)
	case *ssa.Call:
		r := g.call(st, x)
		if x.Type() != nil {
			if tup, ok := x.Type().(*types.Tuple); ok && tup.Len() == 0 {
				return
			}
			r.Ty = x.Type()
			g.env[x] = r
		}
	case *ssa.Extract:
		t := g.val(st, x.Tuple)
		if (t.K == VTuple) && x.Index < len(t.F) {
			v := t.F[x.Index]
			v.Ty = x.Type()
			g.env[x] = v
		} else {
			g.env[x] = g.declare(st, x.Name(), x.Type())
		}
	case *ssa.Convert:
		g.convert(st, x)
	case *ssa.ChangeType:
		v := g.val(st, x.X)
		v.Ty = x.Type()
		g.env[x] = v
	case *ssa.ChangeInterface:
		v := g.val(st, x.X)
		v.Ty = x.Type()
		g.env[x] = v
	case *ssa.MakeInterface:
		g.makeInterface(st, x)
	case *ssa.TypeAssert:
		g.typeAssert(st, x)
	case *ssa.MakeSlice:
		g.makeSlice(st, x)
	case *ssa.MakeMap:
		g.makeMap(st, x)
	case *ssa.MakeChan:
		r := g.allocRef(st, x.Name())
		g.env[x] = scalar(r, x.Type())
		if g.C != nil && g.C.ChanState {
			// chanstate: a new channel is open and its capacity is ghost state
			sz := g.val(st, x.Size)
			if sz.K == VScalar && sz.T != nil {
				for _, gc := range []struct {
					n string
					v *Term
				}{{"O:ghost.chancap", sz.T}, {"O:ghost.closed", IntLit(0)}} {
					h := g.heapGet(st, gc.n, ArraySort(SInt, SInt))
					g.heapSet(st, gc.n, ArraySort(SInt, SInt), Store(h, r, gc.v))
				}
			}
		}
	case *ssa.MakeClosure:
		g.makeClosure(st, x)
	case *ssa.Lookup:
		g.lookup(st, x)
	case *ssa.MapUpdate:
		g.mapUpdate(st, x)
	case *ssa.Range:
		g.rangeInstr(st, x)
	case *ssa.Next:
		g.next(st, x)
	case *ssa.Defer:
		g.deferInstr(st, x)
	case *ssa.RunDefers:
		g.runDefers(st, x)
	case *ssa.Go:
		if g.C != nil && g.C.Sequential && !g.C.Trusted {
			g.oblige(st, "no-go", "", "sequential: the function starts no goroutine", x.Pos(), False)
		}
		g.goInstr(st, x)
	case *ssa.Send:
		g.send(st, x)
	case *ssa.Select:
		g.selectInstr(st, x)
	case *ssa.SliceToArrayPointer, *ssa.MultiConvert:
		g.unsupported("%T", in)
		if v, ok := in.(ssa.Value); ok {
			g.env[v] = g.declare(st, v.Name(), v.Type())
		}
	default:
		g.unsupported("instruction %T", in)
		if v, ok := in.(ssa.Value); ok {
			g.env[v] = g.declare(st, v.Name(), v.Type())
		}
	}
}

// ---------------------------------------------------------------- arithmetic

func (g *Gen) binop(st *State, x *ssa.BinOp) Val {
	a, b := g.val(st, x.X), g.val(st, x.Y)
	ty := x.Type()
	opTy := x.X.Type()
	havoc := func(why string) Val {
		g.Abstracted[fmt.Sprintf("%s %s at %s (result unconstrained)", why, x.Op, g.pos(x.Pos()))] = true
		return g.declare(st, x.Name(), ty)
	}
	// comparisons on non-scalar values
	if x.Op == token.EQL || x.Op == token.NEQ {
		if a.K == VAddr {
			a = g.firstClass(a, "pointer comparison")
		}
		if b.K == VAddr {
			b = g.firstClass(b, "pointer comparison")
		}
		e := valEq(a, b)
		if e == nil {
			return havoc("comparison of unmodelled values")
		}
		if isFloatType(opTy) {
			return havoc("float comparison")
		}
		if x.Op == token.NEQ {
			e = Not(e)
		}
		return scalar(e, ty)
	}
	if a.K != VScalar || b.K != VScalar || a.T == nil || b.T == nil {
		return havoc("operation on unmodelled values")
	}
	if isFloatType(opTy) {
		return havoc("floating point")
	}
	if isStringType(opTy) {
		switch x.Op {
		case token.ADD:
			r := App("vp_concat", SStr, a.T, b.T)
			g.assume(Eq(App("vp_strlen", SInt, r), Add(App("vp_strlen", SInt, a.T), App("vp_strlen", SInt, b.T))))
			g.strlenNonNeg(a.T)
			g.strlenNonNeg(b.T)
			return scalar(r, ty)
		case token.LSS:
			return scalar(App("vp_strlt", SBool, a.T, b.T), ty)
		case token.GTR:
			return scalar(App("vp_strlt", SBool, b.T, a.T), ty)
		case token.LEQ:
			return scalar(Not(App("vp_strlt", SBool, b.T, a.T)), ty)
		case token.GEQ:
			return scalar(Not(App("vp_strlt", SBool, a.T, b.T)), ty)
		}
		return havoc("string op")
	}
	if a.T.S == SBool {
		switch x.Op {
		case token.AND, token.LAND:
			return scalar(And(a.T, b.T), ty)
		case token.OR, token.LOR:
			return scalar(Or(a.T, b.T), ty)
		}
		return havoc("bool op")
	}
	if a.T.S != SInt || b.T.S != SInt {
		return havoc("non-integer op")
	}
	_, signed, _ := intInfo(opTy)
	switch x.Op {
	case token.ADD:
		return scalar(wrap1(Add(a.T, b.T), ty), ty)
	case token.SUB:
		return scalar(wrap1(Sub(a.T, b.T), ty), ty)
	case token.MUL:
		return scalar(wrapMod(Mul(a.T, b.T), ty), ty)
	case token.QUO, token.REM:
		g.oblige(st, "div-zero", "", "integer division by zero", x.Pos(), Ne(b.T, IntLit(0)))
		var q, r *Term
		if !signed {
			q, r = EDiv(a.T, b.T), EMod(a.T, b.T)
		} else {
			// Go truncates toward zero; SMT div is euclidean (floor for positive divisor)
			absA := Ite(Ge(a.T, IntLit(0)), a.T, Neg(a.T))
			absB := Ite(Ge(b.T, IntLit(0)), b.T, Neg(b.T))
			qa := EDiv(absA, absB)
			sameSign := Eq(Ge(a.T, IntLit(0)), Ge(b.T, IntLit(0)))
			q = Ite(sameSign, qa, Neg(qa))
			r = Sub(a.T, Mul(b.T, q))
		}
		if x.Op == token.QUO {
			return scalar(wrap1(q, ty), ty)
		}
		return scalar(r, ty)
	case token.LSS:
		return scalar(Lt(a.T, b.T), ty)
	case token.LEQ:
		return scalar(Le(a.T, b.T), ty)
	case token.GTR:
		return scalar(Gt(a.T, b.T), ty)
	case token.GEQ:
		return scalar(Ge(a.T, b.T), ty)
	case token.SHL:
		// x << c with constant c: multiplication by 2^c (wrapping)
		if b.T.Op == "int" && b.T.IV.IsInt64() && b.T.IV.Int64() >= 0 && b.T.IV.Int64() < 64 {
			m := new(big.Int).Lsh(big.NewInt(1), uint(b.T.IV.Int64()))
			return scalar(wrapMod(Mul(a.T, BigLit(m)), ty), ty)
		}
		return g.bitop(st, x, a, b)
	case token.SHR:
		if b.T.Op == "int" && b.T.IV.IsInt64() && b.T.IV.Int64() >= 0 && b.T.IV.Int64() < 64 {
			m := new(big.Int).Lsh(big.NewInt(1), uint(b.T.IV.Int64()))
			return scalar(EDiv(a.T, BigLit(m)), ty) // floor division == arithmetic shift
		}
		return g.bitop(st, x, a, b)
	case token.AND, token.OR, token.XOR, token.AND_NOT:
		return g.bitop(st, x, a, b)
	}
	return havoc("operator")
}

// bitop models bitwise operators on Int-encoded values through uninterpreted
// functions with the facts that are cheap and exact (masks with 2^k-1, identities).
func (g *Gen) bitop(st *State, x *ssa.BinOp, a, b Val) Val {
	ty := x.Type()
	bits, signed, _ := intInfo(ty)
	if bits == 0 {
		bits = 64
	}
	if x.Op == token.AND && !signed {
		// x & (2^k - 1) == x mod 2^k
		for _, pr := range [][2]*Term{{a.T, b.T}, {b.T, a.T}} {
			if pr[1].Op == "int" {
				m := new(big.Int).Add(pr[1].IV, big.NewInt(1))
				if m.Sign() > 0 && new(big.Int).And(m, pr[1].IV).Sign() == 0 {
					return scalar(EMod(pr[0], BigLit(m)), ty)
				}
			}
		}
	}
	name := map[token.Token]string{token.AND: "vp_bitand", token.OR: "vp_bitor", token.XOR: "vp_bitxor", token.AND_NOT: "vp_bitandnot", token.SHL: "vp_shl", token.SHR: "vp_shr"}[x.Op]
	r := App(fmt.Sprintf("%s%d", name, bits), SInt, a.T, b.T)
	g.assume(inRange(r, ty))
	if !signed {
		switch x.Op {
		case token.AND:
			g.assume(And(Le(r, a.T), Le(r, b.T)))
		case token.OR:
			g.assume(And(Ge(r, a.T), Ge(r, b.T), Le(r, Add(a.T, b.T))))
		case token.SHR:
			g.assume(Le(r, a.T))
		}
	}
	g.Abstracted["bitwise operator on Int-encoded value modelled by an uninterpreted function with bounds facts ("+name+")"] = true
	return scalar(r, ty)
}

func (g *Gen) strlenNonNeg(s *Term) { g.assume(Le(IntLit(0), App("vp_strlen", SInt, s))) }

func (g *Gen) unop(st *State, x *ssa.UnOp) {
	switch x.Op {
	case token.MUL: // load
		addr := g.val(st, x.X)
		a := g.addrOf(addr)
		if a == nil {
			g.unsupported("load through %s", typeStr(x.X.Type()))
			g.env[x] = g.declare(st, x.Name(), x.Type())
			return
		}
		g.nilCheck(st, addr, x.Pos(), "load")
		ls := st
		if fv, ok := x.X.(*ssa.FreeVar); ok && g.entry != nil && g.immutableCapture(fv) {
			// a captured variable that is never reassigned: its value on entry
			ls = g.entry
			g.Assumed["captured variables assigned only by their declaration keep their value (no closure assigns them; checked on the SSA form)"] = true
		}
		if al, ok := x.X.(*ssa.Alloc); ok && al.Heap {
			if sv := singleDominatingStore(al, x); sv != nil {
				// a local assigned exactly once (by no closure either) and read after that
				// assignment: callees cannot have changed it, whatever they are given
				if _, bound := g.env[sv]; bound || isConstLike(sv) {
					g.Assumed["captured variables assigned only by their declaration keep their value (no closure assigns them; checked on the SSA form)"] = true
					g.bind(st, x, g.val(st, sv))
					return
				}
			}
		}
		v := g.load(ls, a, x.Type())
		g.bind(st, x, v)
	case token.NOT:
		v := g.val(st, x.X)
		if v.K == VScalar && v.T != nil && v.T.S == SBool {
			g.bind(st, x, scalar(Not(v.T), x.Type()))
		} else {
			g.env[x] = g.declare(st, x.Name(), x.Type())
		}
	case token.SUB:
		v := g.val(st, x.X)
		if v.K == VScalar && v.T != nil && v.T.S == SInt && !isFloatType(x.Type()) {
			g.bind(st, x, scalar(wrap1(Neg(v.T), x.Type()), x.Type()))
		} else {
			g.env[x] = g.declare(st, x.Name(), x.Type())
		}
	case token.XOR:
		v := g.val(st, x.X)
		if v.K == VScalar && v.T != nil && v.T.S == SInt {
			// ^x == -x-1 (signed) ; max - x (unsigned)
			_, signed, _ := intInfo(x.Type())
			if signed {
				g.bind(st, x, scalar(Sub(Neg(v.T), IntLit(1)), x.Type()))
			} else {
				_, hi, _ := intRange(x.Type())
				g.bind(st, x, scalar(Sub(BigLit(hi), v.T), x.Type()))
			}
		} else {
			g.env[x] = g.declare(st, x.Name(), x.Type())
		}
	case token.ARROW:
		g.recv(st, x)
	default:
		g.unsupported("unary %s", x.Op)
		g.env[x] = g.declare(st, x.Name(), x.Type())
	}
}

func (g *Gen) convert(st *State, x *ssa.Convert) {
	v := g.val(st, x.X)
	from, to := x.X.Type(), x.Type()
	_, _, fi := intInfo(from)
	_, _, ti := intInfo(to)
	switch {
	case fi && ti && v.K == VScalar && v.T != nil:
		if rangeWithin(from, to) {
			g.bind(st, x, scalar(v.T, to))
		} else {
			g.bind(st, x, scalar(wrapMod(v.T, to), to))
		}
	case isStringType(from) && isByteSlice(to):
		// []byte(s): fresh backing array holding the bytes of s
		r := g.allocRef(st, x.Name())
		n := App("vp_strlen", SInt, v.T)
		g.strlenNonNeg(v.T)
		cs := ArraySort(SInt, ArraySort(SInt, SInt))
		name := "E:uint8"
		h := g.heapGet(st, name, cs)
		g.heapSet(st, name, cs, Store(h, r, App("vp_strbytes", ArraySort(SInt, SInt), v.T)))
		// converting back gives the same string
		g.assume(Eq(App("vp_bytesstr", SStr, App("vp_strbytes", ArraySort(SInt, SInt), v.T), IntLit(0), n), v.T))
		sv := Val{K: VSlice, Ty: to, F: []Val{scalar(r, nil), scalar(IntLit(0), nil), scalar(n, nil), scalar(n, nil)}}
		g.bind(st, x, sv)
	case isByteSlice(from) && isStringType(to):
		if v.K == VSlice {
			h := g.heapGet(st, "E:uint8", ArraySort(SInt, ArraySort(SInt, SInt)))
			s := App("vp_bytesstr", SStr, Select(h, v.F[0].T), v.F[1].T, v.F[2].T)
			g.assume(Eq(App("vp_strlen", SInt, s), v.F[2].T))
			g.bind(st, x, scalar(s, to))
		} else {
			g.env[x] = g.declare(st, x.Name(), to)
		}
	case isFloatType(from) || isFloatType(to):
		g.Abstracted["floating-point conversion (result unconstrained)"] = true
		g.env[x] = g.declare(st, x.Name(), to)
	default:
		if scalarSort(from) != nil && scalarSort(from) == scalarSort(to) && v.K == VScalar {
			if fi && isStringType(to) {
				g.env[x] = g.declare(st, x.Name(), to)
				return
			}
			g.bind(st, x, scalar(v.T, to))
			return
		}
		g.unsupported("conversion %s -> %s", typeStr(from), typeStr(to))
		g.env[x] = g.declare(st, x.Name(), to)
	}
}

func isByteSlice(t types.Type) bool {
	s, ok := t.Underlying().(*types.Slice)
	if !ok {
		return false
	}
	b, ok := s.Elem().Underlying().(*types.Basic)
	return ok && b.Kind() == types.Uint8
}

// ---------------------------------------------------------------- allocation, slices

func (g *Gen) allocRef(st *State, hint string) *Term {
	r := g.fresh("new:"+hint, SInt)
	g.assume(Gt(r, st.Clk))
	st.Clk = r
	if g.freshRefs != nil {
		g.freshRefs[r] = true
	}
	return r
}

// zeroObj writes zero values for an object of type t at reference r.
func (g *Gen) zeroObj(st *State, r *Term, t types.Type) {
	if at, ok := t.Underlying().(*types.Array); ok {
		g.zeroElems(st, r, at.Elem())
		return
	}
	a := &Addr{Root: RObj, Ref: r, RootT: t}
	g.store(st, a, t, zeroVal(t))
}

func (g *Gen) zeroElems(st *State, r *Term, elem types.Type) {
	if g.freshRefs[r] {
		g.quietEpoch = true
		defer func() { g.quietEpoch = false }()
	}
	for _, lf := range leavesOf(elem) {
		a := &Addr{Root: RElem, RootT: elem}
		name := g.compName(a, lf)
		s := g.compSort(RElem, lf.Sort)
		h := g.heapGet(st, name, s)
		g.heapSet(st, name, s, Store(h, r, ConstArray(ArraySort(SInt, lf.Sort), zeroTerm(lf.Sort))))
	}
}

func (g *Gen) alloc(st *State, x *ssa.Alloc) {
	elem := x.Type().(*types.Pointer).Elem()
	if !x.Heap && g.localOK(x) {
		st.Locals[x] = zeroVal(elem)
		g.localsU[x] = true
		g.recordLocalWrite(x)
		g.env[x] = Val{K: VAddr, Ty: x.Type(), A: &Addr{Root: RLocal, Local: x, RootT: elem}}
		return
	}
	r := g.allocRef(st, x.Name())
	g.zeroObj(st, r, elem)
	if _, isArr := elem.Underlying().(*types.Array); !isArr && g.cellTy != nil {
		g.cellTy[r] = elem
	}
	g.env[x] = scalar(r, x.Type())
}

// localOK: every use of the alloc is a direct load/store or a field/index address
// that is itself only loaded/stored or passed as a call argument.
func (g *Gen) localOK(x *ssa.Alloc) bool {
	elem := x.Type().(*types.Pointer).Elem()
	if _, isArr := elem.Underlying().(*types.Array); isArr {
		return false
	}
	var ok func(v ssa.Value, depth int) bool
	ok = func(v ssa.Value, depth int) bool {
		refs := v.Referrers()
		if refs == nil {
			return false
		}
		for _, r := range *refs {
			switch u := r.(type) {
			case *ssa.Store:
				if u.Val == v {
					return false
				}
			case *ssa.UnOp:
				if u.Op != token.MUL {
					return false
				}
			case *ssa.FieldAddr:
				if !ok(u, depth+1) {
					return false
				}
			case *ssa.DebugRef:
			case ssa.CallInstruction:
				// address passed to a call (e.g. method on a local struct): allowed, the
				// callee sees a symbolic address
				if depth == 0 && len(leavesOf(elem)) == 0 {
					return false
				}
			default:
				return false
			}
		}
		return true
	}
	return ok(x, 0)
}

func (g *Gen) elemAddr(st *State, base Val, idx *Term, pos token.Pos, what string) (*Addr, types.Type) {
	switch base.K {
	case VSlice:
		et := base.Ty.Underlying().(*types.Slice).Elem()
		g.oblige(st, "index", "", "index out of range: "+what, pos, And(Le(IntLit(0), idx), Lt(idx, base.F[2].T)))
		return &Addr{Root: RElem, Ref: base.F[0].T, Idx: Add(base.F[1].T, idx), RootT: et}, et
	}
	return nil, nil
}

func (g *Gen) indexAddr(st *State, x *ssa.IndexAddr) {
	base := g.val(st, x.X)
	iv := g.val(st, x.Index)
	if iv.K != VScalar || iv.T == nil {
		g.unsupported("index value")
		g.env[x] = g.declare(st, x.Name(), x.Type())
		return
	}
	switch t := x.X.Type().Underlying().(type) {
	case *types.Slice:
		if base.K != VSlice {
			break
		}
		a, _ := g.elemAddr(st, base, iv.T, x.Pos(), x.X.Name())
		g.env[x] = Val{K: VAddr, Ty: x.Type(), A: a}
		return
	case *types.Pointer:
		at, ok := t.Elem().Underlying().(*types.Array)
		if !ok {
			break
		}
		b := g.firstClass(base, "array pointer")
		if b.K != VScalar {
			break
		}
		g.nilCheck(st, b, x.Pos(), "array pointer")
		g.oblige(st, "index", "", "array index out of range", x.Pos(), And(Le(IntLit(0), iv.T), Lt(iv.T, IntLit(at.Len()))))
		g.env[x] = Val{K: VAddr, Ty: x.Type(), A: &Addr{Root: RElem, Ref: b.T, Idx: iv.T, RootT: at.Elem()}}
		return
	}
	g.unsupported("IndexAddr on %s", typeStr(x.X.Type()))
	g.env[x] = g.declare(st, x.Name(), x.Type())
}

func (g *Gen) index(st *State, x *ssa.Index) {
	base := g.val(st, x.X)
	iv := g.val(st, x.Index)
	if isStringType(x.X.Type()) && base.K == VScalar && iv.K == VScalar {
		g.strlenNonNeg(base.T)
		g.oblige(st, "index", "", "string index out of range", x.Pos(), And(Le(IntLit(0), iv.T), Lt(iv.T, App("vp_strlen", SInt, base.T))))
		r := App("vp_strat", SInt, base.T, iv.T)
		g.assume(And(Le(IntLit(0), r), Le(r, IntLit(255))))
		g.bind(st, x, scalar(r, x.Type()))
		return
	}
	g.unsupported("Index on %s", typeStr(x.X.Type()))
	g.env[x] = g.declare(st, x.Name(), x.Type())
}

func (g *Gen) slice(st *State, x *ssa.Slice) {
	base := g.val(st, x.X)
	get := func(v ssa.Value) *Term {
		if v == nil {
			return nil
		}
		t := g.val(st, v)
		if t.K == VScalar {
			return t.T
		}
		return nil
	}
	lo, hi, mx := get(x.Low), get(x.High), get(x.Max)
	switch t := x.X.Type().Underlying().(type) {
	case *types.Slice:
		if base.K != VSlice {
			break
		}
		arr, off, ln, cp := base.F[0].T, base.F[1].T, base.F[2].T, base.F[3].T
		if lo == nil {
			lo = IntLit(0)
		}
		if hi == nil {
			hi = ln
		}
		var goal *Term
		newCap := Sub(cp, lo)
		if mx != nil {
			goal = And(Le(IntLit(0), lo), Le(lo, hi), Le(hi, mx), Le(mx, cp))
			newCap = Sub(mx, lo)
		} else {
			goal = And(Le(IntLit(0), lo), Le(lo, hi), Le(hi, cp))
		}
		g.oblige(st, "slice-bounds", "", fmt.Sprintf("slice bounds out of range: %s[...]", x.X.Name()), x.Pos(), goal)
		nv := Val{K: VSlice, Ty: x.Type(), F: []Val{scalar(arr, nil), scalar(Add(off, lo), nil), scalar(Sub(hi, lo), nil), scalar(newCap, nil)}}
		g.bind(st, x, nv)
		return
	case *types.Basic: // string
		if base.K != VScalar {
			break
		}
		n := App("vp_strlen", SInt, base.T)
		g.strlenNonNeg(base.T)
		if lo == nil {
			lo = IntLit(0)
		}
		if hi == nil {
			hi = n
		}
		g.oblige(st, "slice-bounds", "", "string slice bounds out of range", x.Pos(), And(Le(IntLit(0), lo), Le(lo, hi), Le(hi, n)))
		r := App("vp_substr", SStr, base.T, lo, hi)
		g.assume(Eq(App("vp_strlen", SInt, r), Sub(hi, lo)))
		g.assume(Implies(And(Eq(lo, IntLit(0)), Eq(hi, n)), Eq(r, base.T)))
		g.bind(st, x, scalar(r, x.Type()))
		return
	case *types.Pointer:
		at, ok := t.Elem().Underlying().(*types.Array)
		if !ok {
			break
		}
		b := g.firstClass(base, "array pointer")
		if b.K != VScalar {
			break
		}
		n := IntLit(at.Len())
		if lo == nil {
			lo = IntLit(0)
		}
		if hi == nil {
			hi = n
		}
		capEnd := n
		if mx != nil {
			capEnd = mx
		}
		g.oblige(st, "slice-bounds", "", "slice bounds out of range (array)", x.Pos(), And(Le(IntLit(0), lo), Le(lo, hi), Le(hi, capEnd), Le(capEnd, n)))
		nv := Val{K: VSlice, Ty: x.Type(), F: []Val{scalar(b.T, nil), scalar(lo, nil), scalar(Sub(hi, lo), nil), scalar(Sub(capEnd, lo), nil)}}
		g.bind(st, x, nv)
		return
	}
	g.unsupported("Slice of %s", typeStr(x.X.Type()))
	g.env[x] = g.declare(st, x.Name(), x.Type())
}

func (g *Gen) makeSlice(st *State, x *ssa.MakeSlice) {
	ln := g.val(st, x.Len)
	cp := g.val(st, x.Cap)
	if ln.K != VScalar || cp.K != VScalar {
		g.env[x] = g.declare(st, x.Name(), x.Type())
		return
	}
	g.oblige(st, "makeslice", "", "makeslice: len out of range", x.Pos(), And(Le(IntLit(0), ln.T), Le(ln.T, cp.T), Le(cp.T, IntLit(1<<47))))
	r := g.allocRef(st, x.Name())
	g.zeroElems(st, r, x.Type().Underlying().(*types.Slice).Elem())
	nv := Val{K: VSlice, Ty: x.Type(), F: []Val{scalar(r, nil), scalar(IntLit(0), nil), scalar(ln.T, nil), scalar(cp.T, nil)}}
	g.bind(st, x, nv)
}

// ---------------------------------------------------------------- interfaces

// typeID: the identity of a dynamic type, a number derived from the type's name, so that
// different types get different identities in every query.
func typeID(t types.Type) *Term {
	h := fnv.New64a()
	h.Write([]byte(typeStr(t)))
	return IntLit(int64(h.Sum64()>>2) + 1)
}

func (g *Gen) makeInterface(st *State, x *ssa.MakeInterface) {
	v := g.val(st, x.X)
	ct := x.X.Type()
	if _, isPtr := ct.Underlying().(*types.Pointer); isPtr {
		v = g.firstClass(v, "pointer boxed in interface")
		if v.K == VScalar && v.T != nil {
			// the interface value is the pointer itself; its dynamic type is recorded
			g.assume(Implies(Ne(v.T, IntLit(0)), Eq(App("vp_dyntype", SInt, v.T), typeID(ct))))
			// a typed nil pointer in an interface is a non-nil interface: not modelled precisely
			g.bind(st, x, scalar(v.T, x.Type()))
			return
		}
	}
	// boxed value: fresh reference with recorded dynamic type and payload
	r := g.allocRef(st, x.Name())
	g.assume(Eq(App("vp_dyntype", SInt, r), typeID(ct)))
	if v.K == VScalar && v.T != nil {
		g.assume(Eq(App("vp_unbox!"+v.T.S.String(), v.T.S, r), v.T))
	}
	g.env[x] = scalar(r, x.Type())
}

func (g *Gen) typeAssert(st *State, x *ssa.TypeAssert) {
	v := g.val(st, x.X)
	if v.K != VScalar || v.T == nil {
		g.env[x] = g.declare(st, x.Name(), x.Type())
		return
	}
	at := x.AssertedType
	var ok *Term
	if _, isIface := at.Underlying().(*types.Interface); isIface {
		okc := g.fresh("implements", SBool)
		ok = And(Ne(v.T, IntLit(0)), okc)
	} else {
		ok = And(Ne(v.T, IntLit(0)), Eq(App("vp_dyntype", SInt, v.T), typeID(at)))
	}
	var res Val
	if s := scalarSort(at); s != nil {
		if _, isPtr := at.Underlying().(*types.Pointer); isPtr || s == SInt && isIfaceType(at) {
			res = scalar(Ite(ok, v.T, IntLit(0)), at)
		} else {
			res = scalar(Ite(ok, App("vp_unbox!"+s.String(), s, v.T), zeroTerm(s)), at)
			g.wfScalar(st, res.T, at)
		}
	} else {
		res = g.declare(st, x.Name(), at)
	}
	if x.CommaOk {
		g.env[x] = Val{K: VTuple, Ty: x.Type(), F: []Val{res, scalar(ok, types.Typ[types.Bool])}}
		return
	}
	g.oblige(st, "type-assert", "", "type assertion to "+typeStr(at), x.Pos(), ok)
	g.env[x] = res
}

func isIfaceType(t types.Type) bool {
	_, ok := t.Underlying().(*types.Interface)
	return ok
}

// ---------------------------------------------------------------- return / panic

func (g *Gen) panicInstr(st *State, x *ssa.Panic) {
	if g.C != nil && g.C.PanicsIf != nil {
		sc := g.specCtx(g.entry, g.entry, nil)
		t, err := sc.boolTerm(g.C.PanicsIf.E)
		if err == nil {
			g.oblige(st, "no-panic", "", "explicit panic reachable only when panics_if holds: "+g.C.PanicsIf.Text, x.Pos(), t)
			return
		}
		g.BindErrs = append(g.BindErrs, fmt.Sprintf("panics_if: %v", err))
	}
	g.oblige(st, "no-panic", "", "explicit panic is unreachable", x.Pos(), False)
}

func isConstLike(v ssa.Value) bool {
	switch v.(type) {
	case *ssa.Const, *ssa.Function, *ssa.Global, *ssa.Builtin:
		return true
	}
	return false
}

// singleDominatingStore: the local variable cell al is assigned exactly once in its
// function and by no closure, its address is used for nothing else, and that one store
// comes before the load on every path; returns the stored value.
func singleDominatingStore(al *ssa.Alloc, load *ssa.UnOp) ssa.Value {
	if !cellAssignedOnce(al, 1) {
		return nil
	}
	var st *ssa.Store
	for _, r := range *al.Referrers() {
		if s, ok := r.(*ssa.Store); ok && s.Addr == al {
			st = s
		}
	}
	if st == nil || st.Block() == nil || load.Block() == nil {
		return nil
	}
	if st.Block() == load.Block() {
		for _, in := range st.Block().Instrs {
			if in == ssa.Instruction(st) {
				return st.Val
			}
			if in == ssa.Instruction(load) {
				return nil
			}
		}
		return nil
	}
	if st.Block().Dominates(load.Block()) {
		return st.Val
	}
	return nil
}
