package eng

import (
	"path/filepath"
	"go/ast"
	"fmt"
	"go/token"
	"go/types"
	"sort"
	"strings"

	"golang.org/x/tools/go/ssa"
)

// Obligation is one proof obligation: defs[:NDefs] ∧ Reach ⇒ Goal.
type Obligation struct {
	Name   string
	Kind   string
	Fn     string
	Clause string // contract text or description
	Pos    string
	NDefs  int
	Reach  *Term
	Goal   *Term
	Gen    *Gen
	// Vacuity / cover checks are "must be sat" queries.
	MustSat bool
	Canary  bool
	seeded  bool
	ground  bool // seeded, and residual user quantifiers dropped
	groundLevel int
	famSlice bool // keep only definitions about the goal's heap components
	caseSub *mergeCase
	eqProp  bool // rewrite with the asserted definitional equalities  read == constant  first
	Block   *ssa.BasicBlock // block of the program point (nil: unknown)
	// result
	Res *SolveResult
}

type State struct {
	Reach  *Term
	Heap   map[string]*Term
	Locals map[*ssa.Alloc]Val
	Clk    *Term
	Epoch  *Term // changes at every heap write: equal epochs imply equal heaps
}

func (s *State) clone() *State {
	n := &State{Reach: s.Reach, Clk: s.Clk, Epoch: s.Epoch, Heap: make(map[string]*Term, len(s.Heap)), Locals: make(map[*ssa.Alloc]Val, len(s.Locals))}
	for k, v := range s.Heap {
		n.Heap[k] = v
	}
	for k, v := range s.Locals {
		n.Locals[k] = v
	}
	return n
}

type loopInfo struct {
	Allow      map[string][]allowedLoc
	L          *Loop
	EntryPhi   map[*ssa.Phi]Val // merged entering values
	HavocState *State
	PreState   *State
}

type Gen struct {
	P    *Program
	Fn   *ssa.Function
	C    *Contract
	Key  string
	cfg  *CFG
	Defs []*Term
	defSeen map[*Term]bool
	defBlk  map[*Term]*ssa.BasicBlock // block in which a definition was made (absent: keep everywhere)
	tagBlock *ssa.BasicBlock           // inlined sub-generators tag with the caller's block
	ancMemo  map[*ssa.BasicBlock]map[*ssa.BasicBlock]bool
	symCache map[*Term][]string
	Obls []*Obligation

	env      map[ssa.Value]Val
	out      map[*ssa.BasicBlock]*State
	in       map[*ssa.BasicBlock]*State
	edge     map[[2]int]*Term
	universe map[string]*Sort
	uniOrder []string
	localsU  map[*ssa.Alloc]bool
	writes   map[*ssa.BasicBlock]map[string]bool
	lwrites  map[*ssa.BasicBlock]map[*ssa.Alloc]bool
	starW    map[*ssa.BasicBlock]bool
	partialStar map[*ssa.BasicBlock]bool
	pass     int
	nfresh   int
	prefix   string
	entry    *State
	counters map[string]int
	loops    map[*ssa.BasicBlock]*loopInfo
	curBlock *ssa.BasicBlock

	Unsupported []string
	Assumed     map[string]bool // trusted contracts / assumptions used
	Abstracted  map[string]bool
	BindErrs    []string
	params      map[string]Val
	ghostVals   map[string]Val // ghost parameters of the function under verification
	callRes     map[string]Val // results of contract-carrying calls, by callres_<Func>_<k>
	callResOrd  map[string]int
	inDefers    bool // running deferred calls (a deferred Unlock is the regular one)
	results     []string // result names
	debugVals   map[string][]debugBinding
	strLits     map[string]*Term
	inlineDepth int
	quiet       bool // inline mode: no obligations
	nbound      int
	refComps    map[string]bool       // components whose cells hold references
	compType    map[string]types.Type // leaf Go type of O: components
	typed       map[*Term]bool
	readsOK     map[string]bool
	readsSeen   map[string]bool
	readsChecking bool
	loopPreClk  *Term // clock when the loop being framed was entered
	heapClk     map[*Term]*Term // heap component version -> clock when it was written
	freshRefs   map[*Term]bool  // objects allocated by this function that have not escaped yet
	iptrs       []*iptrInst     // first-class pointers to scalar fields seen so far
	immCap      map[*ssa.FreeVar]bool // captured variables that are never reassigned
	cellTy      map[*Term]types.Type // heap cells of local variables (captured or address-taken), by reference
	quietEpoch  bool            // the current write goes to a non-escaped fresh object
	mergeCases  map[*Term][]*mergeCase // reach constant of a join block -> incoming cases
	callOrd     map[string]int
	usedCallAssumes map[*Clause]bool
	preCallOrd  map[string]int
	callStates  map[string][]*State // states just before each call, by callee (recorded when the contract uses atcall)
	wantCallSt  bool
	sentinels   map[*Term]bool
	defers      []deferred
	retVals     []retPoint
	frameIdx    map[string]int
	inlineCounter *int
	entryDefs   int // number of defs after preconditions (vacuity check)
}

// mergeCase: one incoming edge of a join block, with the substitution that
// replaces the block's merged constants by that predecessor's values.
type mergeCase struct {
	Pred *ssa.BasicBlock
	Cond *Term
	Sub  map[*Term]*Term
}

type debugBinding struct {
	V     ssa.Value
	Block *ssa.BasicBlock
	Idx   int
	Addr  bool
	Obj   types.Object
	Def   bool // the reference is the left-hand side of an assignment: its value may be the one before the assignment
}

func NewGen(p *Program, fn *ssa.Function, c *Contract) *Gen {
	g := &Gen{P: p, Fn: fn, C: c, Key: FuncKey(fn)}
	g.prefix = ShortKey(g.Key)
	g.Assumed = map[string]bool{}
	g.Abstracted = map[string]bool{}
	g.universe = map[string]*Sort{}
	g.localsU = map[*ssa.Alloc]bool{}
	g.writes = map[*ssa.BasicBlock]map[string]bool{}
	g.lwrites = map[*ssa.BasicBlock]map[*ssa.Alloc]bool{}
	g.starW = map[*ssa.BasicBlock]bool{}
	g.partialStar = map[*ssa.BasicBlock]bool{}
	return g
}

func (g *Gen) reset() {
	g.Defs = nil
	g.defSeen = map[*Term]bool{}
	g.defBlk = map[*Term]*ssa.BasicBlock{}
	g.Obls = nil
	g.env = map[ssa.Value]Val{}
	g.out = map[*ssa.BasicBlock]*State{}
	g.in = map[*ssa.BasicBlock]*State{}
	g.edge = map[[2]int]*Term{}
	g.nfresh = 0
	g.counters = map[string]int{}
	g.loops = map[*ssa.BasicBlock]*loopInfo{}
	g.Unsupported = nil
	g.BindErrs = nil
	g.params = map[string]Val{}
	g.strLits = map[string]*Term{}
	g.defers = nil
	g.callOrd = map[string]int{}
	g.readsOK = nil
	g.readsSeen = nil
	g.heapClk = map[*Term]*Term{}
	g.typed = map[*Term]bool{}
	if g.compType == nil {
		g.compType = map[string]types.Type{}
	}
	if g.refComps == nil {
		g.refComps = map[string]bool{}
	}
	g.freshRefs = map[*Term]bool{}
	g.iptrs = nil
	g.cellTy = map[*Term]types.Type{}
	g.mergeCases = map[*Term][]*mergeCase{}
	g.usedCallAssumes = map[*Clause]bool{}
	g.preCallOrd = map[string]int{}
	g.callStates = map[string][]*State{}
	g.wantCallSt = g.C != nil && g.C.UsesAtCall
	g.callRes = nil
	g.callResOrd = nil
	g.sentinels = nil
	g.retVals = nil
	g.frameIdx = nil
}

func (g *Gen) unsupported(format string, a ...any) {
	s := fmt.Sprintf(format, a...)
	for _, u := range g.Unsupported {
		if u == s {
			return
		}
	}
	g.Unsupported = append(g.Unsupported, s)
}

func (g *Gen) assume(t *Term) {
	if t == nil || t.IsTrue() {
		return
	}
	if g.defSeen[t] {
		// stated again from another block: keep it for every obligation
		if b, ok := g.defBlk[t]; ok && b != g.effBlock() {
			delete(g.defBlk, t)
		}
		return
	}
	if hasFreeBound(t) {
		// a fact about a term under a quantifier (e.g. the type range of a load
		// inside a forall body): it cannot be stated outside the binder
		return
	}
	g.defSeen[t] = true
	g.Defs = append(g.Defs, t)
	if b := g.effBlock(); b != nil && g.defBlk != nil {
		g.defBlk[t] = b
	}
}

func (g *Gen) effBlock() *ssa.BasicBlock {
	if g.tagBlock != nil {
		return g.tagBlock
	}
	return g.curBlock
}

// ancestors: the blocks from which b is reachable along forward edges (b included).
func (g *Gen) ancestors(b *ssa.BasicBlock) map[*ssa.BasicBlock]bool {
	if g.ancMemo == nil {
		g.ancMemo = map[*ssa.BasicBlock]map[*ssa.BasicBlock]bool{}
	}
	if m, ok := g.ancMemo[b]; ok {
		return m
	}
	m := map[*ssa.BasicBlock]bool{}
	var rec func(x *ssa.BasicBlock)
	rec = func(x *ssa.BasicBlock) {
		if m[x] {
			return
		}
		m[x] = true
		for _, p := range x.Preds {
			if !g.isBack(p, x) {
				rec(p)
			}
		}
	}
	rec(b)
	g.ancMemo[b] = m
	return m
}

// assumeAt adds a fact that holds only when the current point is reached.
func (g *Gen) assumeAt(st *State, t *Term) { g.assume(Implies(st.Reach, t)) }

func (g *Gen) fresh(hint string, s *Sort) *Term {
	g.nfresh++
	return Const(fmt.Sprintf("%s!%s!%d", g.prefix, hint, g.nfresh), s)
}

func (g *Gen) pos(p token.Pos) string {
	if !p.IsValid() {
		return ""
	}
	pp := g.P.Prog.Fset.Position(p)
	return fmt.Sprintf("%s:%d", strings.TrimPrefix(pp.Filename, g.P.RepoDir+"/"), pp.Line)
}

func (g *Gen) oblige(st *State, kind, suffix, clause string, pos token.Pos, goal *Term) {
	if g.quiet {
		return
	}
	name := ShortKey(g.Key) + "#" + kind
	ck := kind + suffix
	n := g.counters[ck]
	g.counters[ck] = n + 1
	name += fmt.Sprintf(".%d", n)
	name += suffix
	parts := splitGoal(goal)
	for j, p := range parts {
		nm := name
		if len(parts) > 1 {
			nm = fmt.Sprintf("%s/%d", name, j)
		}
		o := &Obligation{Name: nm, Kind: kind, Fn: g.Key, Clause: clause, Pos: g.pos(pos), NDefs: len(g.Defs), Reach: st.Reach, Goal: p, Gen: g, Block: g.effBlock()}
		g.Obls = append(g.Obls, o)
	}
	// a checked assertion is an assumption for what follows
	g.assumeAt(st, goal)
}

// ---------------------------------------------------------------- heap components

func (g *Gen) compSort(root int, leafSort *Sort) *Sort {
	switch root {
	case RObj:
		return ArraySort(SInt, leafSort)
	case RElem:
		return ArraySort(SInt, ArraySort(SInt, leafSort))
	}
	return leafSort
}

func (g *Gen) compName(a *Addr, lf leaf) string {
	switch a.Root {
	case RObj:
		return "O:" + typeStr(a.RootT) + pathStr(a.RootT, a.Path) + lf.Path
	case RElem:
		return "E:" + typeStr(a.RootT) + pathStr(a.RootT, a.Path) + lf.Path
	case RGlobal:
		imm := ""
		if !g.P.MutableGlobals[a.Glob] {
			imm = "!"
		}
		return "G:" + imm + qual(a.Glob.Pkg.Pkg) + "." + a.Glob.Name() + pathStr(a.RootT, a.Path) + lf.Path
	}
	panic("compName: local")
}

// typeAxiom: every cell of an integer-typed heap component holds a value of its
// Go type (stated once per fresh array constant; instantiated at exact reads).
func (g *Gen) typeAxiom(name string, arr *Term) {
	ty, ok := g.compType[name]
	if !ok || arr.Op != "const" || g.typed[arr] {
		return
	}
	g.typed[arr] = true
	if _, _, isInt := intRange(ty); !isInt {
		return
	}
	g.nbound++
	r := BoundVar(fmt.Sprintf("r!%d", g.nbound), SInt)
	_ = r
	// (the range facts are added per ground read when the query is built: typeGroundReads)
}

func (g *Gen) heapGet(st *State, name string, s *Sort) *Term {
	if t, ok := st.Heap[name]; ok {
		g.typeAxiom(name, t)
		return t
	}
	if _, ok := g.universe[name]; !ok {
		g.universe[name] = s
		g.uniOrder = append(g.uniOrder, name)
	}
	// a component first seen now has had its entry value all along (pass 1 only;
	// in pass 2 every state is initialised with the whole universe)
	t := Const("H0:"+name, s)
	st.Heap[name] = t
	if g.heapClk != nil && g.entry != nil {
		g.heapClk[t] = g.entry.Clk
	}
	return t
}

func (g *Gen) heapSet(st *State, name string, s *Sort, v *Term) {
	if _, ok := g.universe[name]; !ok {
		g.universe[name] = s
		g.uniOrder = append(g.uniOrder, name)
	}
	st.Heap[name] = v
	if g.heapClk != nil {
		g.heapClk[v] = st.Clk
	}
	if !g.quietEpoch {
		st.Epoch = g.fresh("epoch", SInt)
	}
	if g.curBlock != nil {
		m := g.writes[g.curBlock]
		if m == nil {
			m = map[string]bool{}
			g.writes[g.curBlock] = m
		}
		m[name] = true
	}
}

func (g *Gen) recordLocalWrite(a *ssa.Alloc) {
	if g.curBlock != nil {
		m := g.lwrites[g.curBlock]
		if m == nil {
			m = map[*ssa.Alloc]bool{}
			g.lwrites[g.curBlock] = m
		}
		m[a] = true
	}
}

// havocAll gives every heap component a fresh value (unknown callee / external).
func (g *Gen) havocAll(st *State, why string) { g.havocAllExcept(st, why, nil) }

// havocAllExcept: everything may change except the components for which keep
// returns true (a callee's preserves fields(T) clause).
func (g *Gen) havocAllExcept(st *State, why string, keep func(string) bool) {
	if g.curBlock != nil {
		if keep == nil {
			g.starW[g.curBlock] = true
		} else {
			m := g.writes[g.curBlock]
			if m == nil {
				m = map[string]bool{}
				g.writes[g.curBlock] = m
			}
			for _, n := range g.uniOrder {
				if !keep(n) {
					m[n] = true
				}
			}
			g.partialStar[g.curBlock] = true
		}
	}
	names := append([]string{}, g.uniOrder...)
	before := map[string]*Term{}
	if len(g.cellTy) > 0 {
		for k, v := range st.Heap {
			before[k] = v
		}
	}
	for _, n := range names {
		if strings.HasPrefix(n, "G:") && g.immutableGlobalComp(n) {
			continue
		}
		if keep != nil && keep(n) {
			continue
		}
		if n == "O:ghost.chancap" {
			// the capacity of a channel never changes after make
			continue
		}
		st.Heap[n] = g.fresh("hv:"+n, g.universe[n])
	}
	// the cell of a local variable that this function allocated and has not let escape
	// (captured only by a closure it defers itself) is out of every callee's reach
	cells := make([]*Term, 0, len(g.cellTy))
	for r := range g.cellTy {
		cells = append(cells, r)
	}
	sort.Slice(cells, func(i, j int) bool { return cells[i].Name < cells[j].Name })
	for _, r := range cells {
		ty := g.cellTy[r]
		if !g.freshRefs[r] {
			continue
		}
		for _, lf := range leavesOf(ty) {
			n := g.compName(&Addr{Root: RObj, RootT: ty}, lf)
			oldH, ok1 := before[n]
			newH, ok2 := st.Heap[n]
			if ok1 && ok2 && oldH != newH {
				g.assume(Eq(Select(newH, r), Select(oldH, r)))
			}
		}
	}
	st.Epoch = g.fresh("epoch", SInt)
	g.bumpClock(st)
}

func (g *Gen) immutableGlobalComp(name string) bool { return strings.HasPrefix(name, "G:!") }

func (g *Gen) bumpClock(st *State) {
	c := g.fresh("clk", SInt)
	g.assume(Le(st.Clk, c))
	st.Clk = c
}

// wfLeaf emits the type invariant of a freshly read / havocked leaf value.
func (g *Gen) wfScalar(st *State, t *Term, ty types.Type) {
	if t.Op == "int" || t.Op == "true" || t.Op == "false" {
		return
	}
	if _, _, ok := intRange(ty); ok {
		g.assume(inRange(t, ty))
		return
	}
	switch ty.Underlying().(type) {
	case *types.Pointer, *types.Map, *types.Chan, *types.Signature, *types.Interface:
		g.assume(And(Le(IntLit(0), t), Le(t, st.Clk)))
	}
}

// wfValIf: the reference bounds of wfVal, under a condition.
func (g *Gen) wfValIf(st *State, c *Term, v Val) {
	switch v.K {
	case VScalar:
		if v.T != nil && v.Ty != nil && isRefType(v.Ty) && v.T.Op != "int" {
			g.assume(Implies(c, Le(v.T, st.Clk)))
		}
	case VSlice:
		g.assume(Implies(c, Le(v.F[0].T, st.Clk)))
	case VStruct, VTuple:
		for _, f := range v.F {
			g.wfValIf(st, c, f)
		}
	}
}

func (g *Gen) wfVal(st *State, v Val) {
	switch v.K {
	case VScalar:
		if v.T != nil && v.Ty != nil {
			g.wfScalar(st, v.T, v.Ty)
		}
	case VSlice:
		arr, off, ln, cp := v.F[0].T, v.F[1].T, v.F[2].T, v.F[3].T
		g.assume(And(Le(IntLit(0), arr), Le(arr, st.Clk), Le(IntLit(0), off), Le(IntLit(0), ln), Le(ln, cp),
			Le(cp, IntLit(1<<62)), Le(off, IntLit(1<<62)),
			Implies(Eq(arr, IntLit(0)), Eq(cp, IntLit(0)))))
	case VStruct, VTuple:
		for _, f := range v.F {
			g.wfVal(st, f)
		}
	}
}

// load reads the value of type ty stored at address a.
func (g *Gen) load(st *State, a *Addr, ty types.Type) Val {
	if a.Root == RLocal {
		cur, ok := st.Locals[a.Local]
		if !ok {
			cur = zeroVal(a.RootT)
			st.Locals[a.Local] = cur
			g.localsU[a.Local] = true
		}
		return cur.at(a.Path)
	}
	// references read from a heap version are no younger than that version
	var verClk *Term
	v := buildVal(ty, func(lf leaf) *Term {
		name := g.compName(a, lf)
		if a.Root == RObj {
			g.compType[name] = lf.Ty
		}
		g.checkReads(name, a)
		if isRefType(lf.Ty) || strings.HasSuffix(lf.Path, "#arr") {
			g.refComps[name] = true
		}
		var h *Term
		var r *Term
		switch a.Root {
		case RObj:
			h = g.heapGet(st, name, g.compSort(RObj, lf.Sort))
			r = Select(h, a.Ref)
			if len(a.Path) == 0 && len(g.iptrs) > 0 {
				for _, in := range g.iptrs {
					if "O:"+typeStr(in.ElemT) == name && in.P != a.Ref {
						fs := g.compSort(RObj, lf.Sort)
						r = Ite(Eq(a.Ref, in.P), Select(g.heapGet(st, in.Comp, fs), in.Owner), r)
					} else if in.P == a.Ref && "O:"+typeStr(in.ElemT) == name {
						fs := g.compSort(RObj, lf.Sort)
						r = Select(g.heapGet(st, in.Comp, fs), in.Owner)
						break
					}
				}
			}
		case RElem:
			h = g.heapGet(st, name, g.compSort(RElem, lf.Sort))
			r = Select(Select(h, a.Ref), a.Idx)
		default:
			h = g.heapGet(st, name, lf.Sort)
			r = h
		}
		if c, ok := g.heapClk[h]; ok {
			if verClk == nil {
				verClk = c
			} else if verClk != c {
				verClk = st.Clk
			}
		} else {
			verClk = st.Clk
		}
		return r
	})
	// every reference in the heap is no younger than the current clock; if the object
	// read already existed when this heap version was written (ref <= version clock),
	// what it holds is no younger than that version either. (Cells of objects that a
	// callee allocates later are not covered by the version bound.)
	g.wfVal(st, v)
	if verClk != nil && verClk != st.Clk && (a.Root == RObj || a.Root == RElem) && !hasFreeBound(a.Ref) {
		tmp := *st
		tmp.Clk = verClk
		g.wfValIf(&tmp, Le(a.Ref, verClk), v)
	}
	if a.Root == RGlobal && len(a.Path) == 0 && !g.P.MutableGlobals[a.Glob] && v.K == VScalar && isErrorType(ty) {
		g.sentinel(v.T)
	}
	if a.Root == RGlobal && len(a.Path) == 0 && a.Glob.Name() == "init$guard" && v.K == VScalar && g.Fn != nil && g.Fn.Synthetic == "package initializer" {
		// the runtime runs a package initialiser once: its guard is clear on entry
		g.Assumed["package initialiser runs once (init$guard clear on entry)"] = true
		g.assume(Eq(v.T, False))
	}
	if a.Root == RGlobal && len(a.Path) == 0 && !g.P.MutableGlobals[a.Glob] && v.K == VScalar && !(g.Fn != nil && g.Fn.Synthetic == "package initializer") && a.Glob.Name() != "init$guard" {
		// a package-level variable that is only assigned a constant by its initialiser
		// (not inside the initialiser itself, where it may not be assigned yet)
		if c, ok := g.P.GlobalInit[a.Glob]; ok {
			cv := g.constVal(c)
			if cv.K == VScalar && cv.T != nil && cv.T.S == v.T.S {
				g.assume(Eq(v.T, cv.T))
			}
		}
	}
	return v
}

func isErrorType(t types.Type) bool {
	n, ok := t.(*types.Named)
	return ok && n.Obj().Pkg() == nil && n.Obj().Name() == "error"
}

// sentinel: a package-level error variable that is never reassigned. Trusted:
// it is non-nil, distinct from every other sentinel, and errors.Is relates it
// only to itself (values made by errors.New have no Unwrap/Is methods).
func (g *Gen) sentinel(t *Term) {
	if g.sentinels == nil {
		g.sentinels = map[*Term]bool{}
	}
	if g.sentinels[t] {
		return
	}
	g.assume(Ne(t, IntLit(0)))
	g.assume(g.errIs(t, t))
	others := make([]*Term, 0, len(g.sentinels))
	for o := range g.sentinels {
		others = append(others, o)
	}
	sort.Slice(others, func(i, j int) bool { return others[i].Name < others[j].Name })
	for _, o := range others {
		g.assume(Ne(t, o))
		g.assume(Not(g.errIs(t, o)))
		g.assume(Not(g.errIs(o, t)))
	}
	g.sentinels[t] = true
	g.Assumed["package-level sentinel errors are non-nil, pairwise distinct, never reassigned, and errors.Is relates each only to itself"] = true
}

func setAt(v Val, acc []int, nv Val) Val {
	if len(acc) == 0 {
		return nv
	}
	out := v
	out.F = append([]Val{}, v.F...)
	out.F[acc[0]] = setAt(v.F[acc[0]], acc[1:], nv)
	return out
}

func (g *Gen) store(st *State, a *Addr, ty types.Type, v Val) {
	if a.Root == RLocal {
		cur, ok := st.Locals[a.Local]
		if !ok {
			cur = zeroVal(a.RootT)
			g.localsU[a.Local] = true
		}
		st.Locals[a.Local] = setAt(cur, a.Path, v)
		g.recordLocalWrite(a.Local)
		return
	}
	// a write into an object this function allocated and has not yet let escape
	// cannot be observed through any pre-existing reference: the heap epoch (used
	// for the determinism of pure calls) stays
	if (a.Root == RObj || a.Root == RElem) && g.freshRefs[a.Ref] {
		g.quietEpoch = true
		defer func() { g.quietEpoch = false }()
	}
	g.escape(v)
	for _, lf := range leavesOf(ty) {
		lv := v.at(lf.Acc)
		if lv.K != VScalar || lv.T == nil {
			// storing an unmodelled value: havoc the leaf
			lv = scalar(g.fresh("opq", lf.Sort), lf.Ty)
		}
		name := g.compName(a, lf)
		switch a.Root {
		case RObj:
			s := g.compSort(RObj, lf.Sort)
			g.heapSet(st, name, s, Store(g.heapGet(st, name, s), a.Ref, lv.T))
			if len(a.Path) == 0 {
				for _, in := range g.iptrs {
					if "O:"+typeStr(in.ElemT) == name {
						fh := g.heapGet(st, in.Comp, s)
						g.heapSet(st, in.Comp, s, Store(fh, in.Owner, Ite(Eq(a.Ref, in.P), lv.T, Select(fh, in.Owner))))
					}
				}
			}
		case RElem:
			s := g.compSort(RElem, lf.Sort)
			h := g.heapGet(st, name, s)
			g.heapSet(st, name, s, Store(h, a.Ref, Store(Select(h, a.Ref), a.Idx, lv.T)))
		default:
			g.heapSet(st, name, lf.Sort, lv.T)
		}
	}
}

// addrOf turns a pointer-typed Val into an address of its pointee.
func (g *Gen) addrOf(v Val) *Addr {
	if v.K == VAddr {
		return v.A
	}
	if v.K != VScalar || v.Ty == nil {
		return nil
	}
	pt, ok := v.Ty.Underlying().(*types.Pointer)
	if !ok {
		return nil
	}
	if at, ok := pt.Elem().Underlying().(*types.Array); ok {
		_ = at
		// pointer to array object: elements live in the E: components at (ref, i)
		return &Addr{Root: RObj, Ref: v.T, RootT: pt.Elem()}
	}
	return &Addr{Root: RObj, Ref: v.T, RootT: pt.Elem()}
}

// firstClass converts an address value into a plain reference when possible.
func (g *Gen) firstClass(v Val, what string) Val {
	if v.K != VAddr {
		return v
	}
	if v.A.Root == RObj && len(v.A.Path) == 0 {
		return scalar(v.A.Ref, v.Ty)
	}
	if p := g.interiorPtr(v); p != nil {
		return scalar(p, v.Ty)
	}
	g.unsupported("interior pointer used as a first-class value (%s)", what)
	return scalar(g.fresh("iptr", SInt), v.Ty)
}

// iptrInst: a first-class pointer to a scalar field of an object. The pointer is the
// value of an injective function of the owner (one function per field component);
// loads and stores through any pointer of the pointee type are redirected to the field
// when the pointer equals it (see load/store), so the alias is exact.
type iptrInst struct {
	P     *Term
	Owner *Term
	A     *Addr // the field (Root RObj, Ref Owner, Path non-empty)
	ElemT types.Type
	Comp  string // the field's heap component
}

func (g *Gen) interiorPtr(v Val) *Term {
	a := v.A
	if a == nil || a.Root != RObj || len(a.Path) == 0 || a.Ref == nil {
		return nil
	}
	et := typeAt(a.RootT, a.Path)
	lvs := leavesOf(et)
	if len(lvs) != 1 || lvs[0].Path != "" {
		return nil
	}
	if _, ok := et.Underlying().(*types.Basic); !ok {
		return nil
	}
	comp := g.compName(a, lvs[0])
	for _, in := range g.iptrs {
		if in.Comp == comp && in.Owner == a.Ref {
			return in.P
		}
	}
	fn := "vp_iptr!" + comp
	p := App(fn, SInt, a.Ref)
	// like any reference the function was handed: non-nil here, not younger than the entry
	g.assume(Gt(p, IntLit(0)))
	if g.entry != nil && g.entry.Clk != nil {
		g.assume(Le(p, g.entry.Clk))
	}
	for _, in := range g.iptrs {
		if in.Comp == comp {
			g.assume(Implies(Eq(in.P, p), Eq(in.Owner, a.Ref)))
		} else {
			g.assume(Ne(in.P, p))
		}
	}
	g.iptrs = append(g.iptrs, &iptrInst{P: p, Owner: a.Ref, A: a, ElemT: et, Comp: comp})
	g.Assumed["memory model: a pointer to a field (&x.f as a value) aliases exactly that field; other pointers of the type alias it only when equal to it"] = true
	return p
}

func (g *Gen) nilCheck(st *State, v Val, pos token.Pos, what string) {
	var ref *Term
	switch {
	case v.K == VAddr && v.A.Root == RObj:
		ref = v.A.Ref
	case v.K == VScalar && v.T != nil && v.T.S == SInt:
		ref = v.T
	default:
		return
	}
	goal := Ne(ref, IntLit(0))
	if goal.IsTrue() {
		return
	}
	g.oblige(st, "nil-deref", "", "nil dereference: "+what, pos, goal)
}

// ---------------------------------------------------------------- values of SSA operands

func (g *Gen) strLit(s string) *Term {
	if s == "" {
		return emptyStr
	}
	if t, ok := g.strLits[s]; ok {
		return t
	}
	t := Const(fmt.Sprintf("vp_strlit!%q", s), SStr)
	// distinct from all other literals seen so far and from ""
	lits := make([]string, 0, len(g.strLits))
	for o := range g.strLits {
		lits = append(lits, o)
	}
	sort.Strings(lits)
	for _, o := range lits {
		g.assume(Ne(t, g.strLits[o]))
	}
	g.assume(Ne(t, emptyStr))
	g.assume(Eq(App("vp_strlen", SInt, t), IntLit(int64(len(s)))))
	g.strLits[s] = t
	return t
}

func (g *Gen) constVal(c *ssa.Const) Val {
	t := c.Type()
	if c.Value == nil {
		return zeroVal(t)
	}
	switch u := t.Underlying().(type) {
	case *types.Basic:
		switch {
		case u.Info()&types.IsBoolean != 0:
			return scalar(Bool(constantBool(c)), t)
		case u.Info()&types.IsInteger != 0:
			return scalar(BigLit(constantInt(c)), t)
		case u.Info()&types.IsString != 0:
			return scalar(g.strLit(constantString(c)), t)
		case u.Info()&(types.IsFloat|types.IsComplex) != 0:
			return scalar(Const("vp_float!"+c.Value.ExactString(), SInt), t)
		}
	}
	return Val{K: VOpaque, Ty: t}
}

func (g *Gen) val(st *State, v ssa.Value) Val {
	switch x := v.(type) {
	case *ssa.Const:
		return g.constVal(x)
	case *ssa.Global:
		return Val{K: VAddr, Ty: x.Type(), A: &Addr{Root: RGlobal, Glob: x, RootT: x.Type().(*types.Pointer).Elem()}}
	case *ssa.Function:
		return scalar(Const("vp_fn!"+FuncKey(x), SInt), x.Type())
	case *ssa.Builtin:
		return Val{K: VOpaque, Ty: x.Type()}
	}
	if r, ok := g.env[v]; ok {
		return r
	}
	// value defined in a block not yet processed (only through unsupported flow)
	g.unsupported("use of undefined SSA value %s in %s", v.Name(), g.Key)
	r := g.declare(st, v.Name()+"?", v.Type())
	g.env[v] = r
	return r
}

// declare creates fresh constants for a value of the given type and emits its type invariant.
func (g *Gen) declare(st *State, hint string, ty types.Type) Val {
	v := buildVal(ty, func(lf leaf) *Term { return g.fresh(hint+lf.Path, lf.Sort) })
	g.wfVal(st, v)
	return v
}

// named creates constants with stable names (SSA registers).
func (g *Gen) named(st *State, name string, ty types.Type) Val {
	v := buildVal(ty, func(lf leaf) *Term { return Const(g.prefix+"!"+name+lf.Path, lf.Sort) })
	g.wfVal(st, v)
	return v
}

// bind defines SSA value v := x by equations on named constants (keeps queries shallow).
func (g *Gen) bind(st *State, v ssa.Value, x Val) {
	if x.K == VAddr || x.K == VOpaque {
		x.Ty = v.Type()
		g.env[v] = x
		return
	}
	if x.K == VScalar && x.T != nil && (x.T.Op == "const" || x.T.Op == "int" || x.T.Op == "true" || x.T.Op == "false") {
		x.Ty = v.Type()
		g.env[v] = x
		return
	}
	nv := buildVal(v.Type(), func(lf leaf) *Term { return Const(g.prefix+"!"+v.Name()+lf.Path, lf.Sort) })
	g.equate(nv, x)
	nv.KeyT = x.KeyT
	g.env[v] = nv
}

func (g *Gen) equate(a, b Val) {
	switch a.K {
	case VScalar:
		if b.K == VScalar && a.T != nil && b.T != nil && a.T.S == b.T.S {
			g.assume(Eq(a.T, b.T))
		}
	case VSlice, VStruct, VTuple:
		for i := range a.F {
			if i < len(b.F) {
				g.equate(a.F[i], b.F[i])
			}
		}
	}
}

func (g *Gen) equateIf(c *Term, a, b Val) {
	switch a.K {
	case VScalar:
		if b.K == VScalar && a.T != nil && b.T != nil && a.T.S == b.T.S {
			g.assume(Implies(c, Eq(a.T, b.T)))
		}
	case VSlice, VStruct, VTuple:
		for i := range a.F {
			if i < len(b.F) {
				g.equateIf(c, a.F[i], b.F[i])
			}
		}
	}
}

func valEq(a, b Val) *Term {
	switch a.K {
	case VScalar:
		if b.K == VScalar && a.T != nil && b.T != nil && a.T.S == b.T.S {
			return Eq(a.T, b.T)
		}
		return nil
	case VStruct, VTuple:
		var cs []*Term
		for i := range a.F {
			if i >= len(b.F) {
				return nil
			}
			c := valEq(a.F[i], b.F[i])
			if c == nil {
				return nil
			}
			cs = append(cs, c)
		}
		return And(cs...)
	case VSlice:
		// the same slice value: same backing array, offset and length
		if b.K == VSlice && len(a.F) >= 3 && len(b.F) >= 3 {
			return And(Eq(a.F[0].T, b.F[0].T), Eq(a.F[1].T, b.F[1].T), Eq(a.F[2].T, b.F[2].T))
		}
		return nil
	}
	return nil
}

// ---------------------------------------------------------------- driver

func (g *Gen) Run() error {
	cfg, err := AnalyzeCFG(g.Fn)
	if err != nil {
		return err
	}
	g.cfg = cfg
	g.collectDebug()
	for pass := 1; pass <= 5; pass++ {
		g.pass = pass
		nU := len(g.uniOrder)
		nL := len(g.localsU)
		g.reset()
		if err := g.runOnce(); err != nil {
			return err
		}
		if pass >= 2 && len(g.uniOrder) == nU && len(g.localsU) == nL {
			break
		}
	}
	return nil
}

func (g *Gen) collectDebug() {
	g.debugVals = map[string][]debugBinding{}
	// identifiers that are assigned to (left-hand sides): go/ssa records for them the
	// value the variable had before the assignment once the variable is lifted
	lhs := map[token.Pos]bool{}
	if syn := g.Fn.Syntax(); syn != nil {
		mark := func(e ast.Expr) {
			if id, ok := e.(*ast.Ident); ok {
				lhs[id.Pos()] = true
			}
		}
		ast.Inspect(syn, func(n ast.Node) bool {
			switch x := n.(type) {
			case *ast.AssignStmt:
				for _, e := range x.Lhs {
					mark(e)
				}
			case *ast.IncDecStmt:
				mark(x.X)
			case *ast.RangeStmt:
				if x.Key != nil {
					mark(x.Key)
				}
				if x.Value != nil {
					mark(x.Value)
				}
			case *ast.ValueSpec:
				for _, id := range x.Names {
					lhs[id.Pos()] = true
				}
			}
			return true
		})
	}
	for _, b := range g.Fn.Blocks {
		for i, in := range b.Instrs {
			if d, ok := in.(*ssa.DebugRef); ok {
				if obj := d.Object(); obj != nil {
					if v, ok := obj.(*types.Var); ok && v.IsField() {
						continue // a field selection, not a variable of that name
					}
					g.debugVals[obj.Name()] = append(g.debugVals[obj.Name()], debugBinding{V: d.X, Block: b, Idx: i, Addr: d.IsAddr, Obj: obj, Def: d.Expr != nil && lhs[d.Expr.Pos()]})
				}
			}
		}
	}
}

// reachesAvoiding: b can be reached from a successor of a (or from a itself when
// a != avoid) along edges without entering block avoid.
func (g *Gen) reachesAvoiding(a, b, avoid *ssa.BasicBlock) bool {
	seen := map[*ssa.BasicBlock]bool{}
	var rec func(x *ssa.BasicBlock) bool
	rec = func(x *ssa.BasicBlock) bool {
		if x == avoid || seen[x] {
			return false
		}
		if x == b {
			return true
		}
		seen[x] = true
		for _, s := range x.Succs {
			if rec(s) {
				return true
			}
		}
		return false
	}
	if a == avoid {
		for _, s := range a.Succs {
			if s == b && b != avoid {
				return true
			}
			if rec(s) {
				return true
			}
		}
		return false
	}
	return rec(a)
}

// reaches: block b can be reached from block a (along any edges, a == b included).
func (g *Gen) reaches(a, b *ssa.BasicBlock) bool {
	if a == b {
		return true
	}
	seen := map[*ssa.BasicBlock]bool{}
	var rec func(x *ssa.BasicBlock) bool
	rec = func(x *ssa.BasicBlock) bool {
		if x == b {
			return true
		}
		if seen[x] {
			return false
		}
		seen[x] = true
		for _, s := range x.Succs {
			if rec(s) {
				return true
			}
		}
		return false
	}
	return rec(a)
}

func (g *Gen) initState() *State {
	st := &State{Reach: True, Heap: map[string]*Term{}, Locals: map[*ssa.Alloc]Val{}, Clk: Const(g.prefix+"!clk0", SInt), Epoch: Const(g.prefix+"!epoch0", SInt)}
	g.assume(Le(IntLit(0), st.Clk))
	for _, n := range g.uniOrder {
		st.Heap[n] = Const("H0:"+n, g.universe[n])
		g.heapClk[st.Heap[n]] = st.Clk
	}
	return st
}

func (g *Gen) resultNames() []string {
	if g.C != nil && len(g.C.Results) > 0 {
		return resultNamesOf(g.Fn.Signature, g.C)
	}
	res := g.Fn.Signature.Results()
	var names []string
	for i := 0; i < res.Len(); i++ {
		n := res.At(i).Name()
		if n == "" || n == "_" {
			if res.Len() == 1 {
				n = "result"
			} else {
				n = fmt.Sprintf("result%d", i)
			}
		}
		names = append(names, n)
	}
	return names
}

func (g *Gen) runOnce() error {
	st := g.initState()
	g.entry = st.clone()
	g.results = g.resultNames()
	// parameters
	for i, p := range g.Fn.Params {
		v := g.named(st, p.Name(), p.Type())
		g.env[p] = v
		g.params[p.Name()] = v
		if i == 0 && g.Fn.Signature.Recv() != nil {
			if _, isPtr := p.Type().Underlying().(*types.Pointer); isPtr && v.K == VScalar {
				g.assume(Ne(v.T, IntLit(0)))
				g.Assumed["method receivers are non-nil (checked at call sites under contract)"] = true
			}
		}
	}
	for _, fv := range g.Fn.FreeVars {
		v := g.named(st, "fv."+fv.Name(), fv.Type())
		g.env[fv] = v
		if v.K == VScalar {
			g.assume(Ne(v.T, IntLit(0)))
		}
	}
	// global axioms about ghost functions (trusted; listed in evidence)
	if !g.quiet {
		for _, ax := range g.P.Axioms {
			// an axiom stated in a package's contract file is local to that package
			// (it characterises a ghost function that other packages see opaquely)
			if strings.HasSuffix(ax.File, "_verif.go") && g.Fn.Pkg != nil {
				rel := strings.TrimPrefix(filepath.Dir(ax.File), g.P.RepoDir+"/")
				if !strings.HasSuffix(g.Fn.Pkg.Pkg.Path(), "/"+rel) {
					continue
				}
			}
			sca := g.specCtxVars(st, st, map[string]Val{})
			t, err := sca.boolTerm(ax.E)
			if err != nil {
				g.BindErrs = append(g.BindErrs, fmt.Sprintf("axiom %q: %v", ax.Text, err))
				continue
			}
			g.assume(t)
			g.Assumed["axiom "+ax.Text] = true
		}
	}
	// preconditions
	if g.C != nil {
		sc := g.specCtx(st, st, nil)
		// ghost parameters: arbitrary but fixed values (the caller chooses them)
		g.ghostVals = map[string]Val{}
		for _, q := range g.C.Ghosts {
			ty, err := sc.typeByName(q.Type)
			if err != nil || scalarSort(ty) == nil {
				g.BindErrs = append(g.BindErrs, fmt.Sprintf("ghost %s %s: unsupported type", q.Name, q.Type))
				continue
			}
			c := Const(g.prefix+"!ghost!"+q.Name, scalarSort(ty))
			g.ghostVals[q.Name] = scalar(c, ty)
			g.assume(inRange(c, ty))
		}
		for _, cl := range g.C.Requires {
			t, err := sc.boolTerm(cl.E)
			if err != nil {
				g.BindErrs = append(g.BindErrs, fmt.Sprintf("requires %q: %v", cl.Text, err))
				continue
			}
			g.assume(t)
		}
		for _, cl := range g.C.Assumes {
			t, err := sc.boolTerm(cl.E)
			if err != nil {
				g.BindErrs = append(g.BindErrs, fmt.Sprintf("assume %q: %v", cl.Text, err))
				continue
			}
			g.assume(t)
			g.Assumed["assume "+cl.Text+" because "+cl.Why] = true
		}
	}
	g.entry = st.clone()
	g.entryDefs = len(g.Defs)
	for _, b := range g.cfg.Order {
		g.block(b, st)
	}
	if g.C != nil {
		for _, cl := range g.C.CallAssumes {
			if !g.usedCallAssumes[cl] {
				g.BindErrs = append(g.BindErrs, fmt.Sprintf("assume %q does not bind to any call site", cl.Text))
			}
		}
		for _, cl := range g.C.CallAsserts {
			if !g.usedCallAssumes[cl] {
				g.BindErrs = append(g.BindErrs, fmt.Sprintf("assert %q does not bind to any call site", cl.Text))
			}
		}
	}
	return nil
}

func (g *Gen) isBack(from, to *ssa.BasicBlock) bool {
	return g.cfg.Back[[2]int{from.Index, to.Index}]
}

// mergeStates joins predecessor out-states along the given edges.
func (g *Gen) mergeStates(b *ssa.BasicBlock, preds []*ssa.BasicBlock) *State {
	type inc struct {
		st   *State
		cond *Term
	}
	var ins []inc
	for _, p := range preds {
		ps := g.out[p]
		if ps == nil {
			continue
		}
		c := g.edge[[2]int{p.Index, b.Index}]
		if c == nil || c.IsFalse() {
			continue
		}
		ins = append(ins, inc{ps, c})
	}
	if len(ins) == 0 {
		return nil
	}
	var conds []*Term
	for _, i := range ins {
		conds = append(conds, i.cond)
	}
	reach := Const(fmt.Sprintf("%s!reach!%d", g.prefix, b.Index), SBool)
	g.assume(Eq(reach, Or(conds...)))
	if len(ins) == 1 {
		st := ins[0].st.clone()
		st.Reach = reach
		return st
	}
	st := &State{Reach: reach, Heap: map[string]*Term{}, Locals: map[*ssa.Alloc]Val{}}
	var cases []*mergeCase
	for _, i := range ins {
		cases = append(cases, &mergeCase{Cond: i.cond, Sub: map[*Term]*Term{}})
	}
	k := 0
	for _, p := range preds {
		ps := g.out[p]
		c := g.edge[[2]int{p.Index, b.Index}]
		if ps == nil || c == nil || c.IsFalse() {
			continue
		}
		cases[k].Pred = p
		k++
	}
	g.mergeCases[reach] = cases
	mergeTerm := func(hint string, s *Sort, get func(*State) *Term) *Term {
		first := get(ins[0].st)
		same := true
		for _, i := range ins[1:] {
			if get(i.st) != first {
				same = false
			}
		}
		if same {
			return first
		}
		m := Const(fmt.Sprintf("%s!%s@%d", g.prefix, hint, b.Index), s)
		for k, i := range ins {
			g.assume(Implies(i.cond, Eq(m, get(i.st))))
			cases[k].Sub[m] = get(i.st)
		}
		return m
	}
	for _, n := range g.uniOrder {
		n := n
		s := g.universe[n]
		m := mergeTerm("H:"+n, s, func(x *State) *Term { return g.heapGet(x, n, s) })
		st.Heap[n] = m
		if _, known := g.heapClk[m]; !known {
			// version clock of the merged component: that of whichever predecessor ran
			vc := Const(fmt.Sprintf("%s!vclk:%s@%d", g.prefix, n, b.Index), SInt)
			for _, i := range ins {
				h := g.heapGet(i.st, n, s)
				c, ok := g.heapClk[h]
				if !ok {
					c = i.st.Clk
				}
				g.assume(Implies(i.cond, Eq(vc, c)))
			}
			g.heapClk[m] = vc
		}
	}
	st.Clk = mergeTerm("clk", SInt, func(x *State) *Term { return x.Clk })
	st.Epoch = mergeTerm("epoch", SInt, func(x *State) *Term { return x.Epoch })
	allocs := map[*ssa.Alloc]bool{}
	for _, i := range ins {
		for a := range i.st.Locals {
			allocs[a] = true
		}
	}
	var al []*ssa.Alloc
	for a := range allocs {
		al = append(al, a)
	}
	sort.Slice(al, func(i, j int) bool { return al[i].Name() < al[j].Name() })
	for _, a := range al {
		a := a
		ty := a.Type().(*types.Pointer).Elem()
		lvs := leavesOf(ty)
		k := 0
		st.Locals[a] = buildVal(ty, func(lf leaf) *Term {
			l := lvs[k]
			k++
			return mergeTerm("L:"+a.Name()+lf.Path, lf.Sort, func(x *State) *Term {
				cur, ok := x.Locals[a]
				if !ok {
					return zeroTerm(lf.Sort)
				}
				lv := cur.at(l.Acc)
				if lv.K != VScalar || lv.T == nil {
					return zeroTerm(lf.Sort)
				}
				return lv.T
			})
		})
	}
	return st
}

func (g *Gen) block(b *ssa.BasicBlock, entry *State) {
	g.curBlock = b
	defer func() { g.curBlock = nil }()
	var st *State
	loop := g.cfg.Loops[b]
	var fwd []*ssa.BasicBlock
	for _, p := range b.Preds {
		if !g.isBack(p, b) {
			fwd = append(fwd, p)
		}
	}
	if b.Index == 0 {
		st = entry
	} else {
		st = g.mergeStates(b, fwd)
		if st == nil {
			return // unreachable
		}
	}
	if loop != nil {
		st = g.loopHead(b, loop, st, fwd)
	}
	g.in[b] = st.clone()
	for _, in := range b.Instrs {
		if phi, ok := in.(*ssa.Phi); ok {
			if loop == nil {
				g.phi(st, b, phi, fwd)
			}
			continue
		}
		g.instr(st, in)
	}
	g.out[b] = st
	// back edges: invariant preserved
	for _, s := range b.Succs {
		if g.isBack(b, s) {
			g.backEdge(b, s, st)
		}
	}
}

func (g *Gen) phi(st *State, b *ssa.BasicBlock, phi *ssa.Phi, preds []*ssa.BasicBlock) {
	nv := g.named(st, phi.Name(), phi.Type())
	anyAddr := false
	for _, p := range preds {
		idx := predIndex(b, p)
		c := g.edge[[2]int{p.Index, b.Index}]
		if c == nil || c.IsFalse() || g.out[p] == nil {
			continue
		}
		x := g.val(g.out[p], phi.Edges[idx])
		if x.K == VAddr {
			x = g.firstClass(x, "phi "+phi.Name())
			anyAddr = true
		}
		g.equateIf(c, nv, x)
		for _, mc := range g.mergeCases[st.Reach] {
			if mc.Pred == p {
				recordSub(mc.Sub, nv, x)
			}
		}
	}
	_ = anyAddr
	g.env[phi] = nv
}

func predIndex(b, p *ssa.BasicBlock) int {
	for i, q := range b.Preds {
		if q == p {
			return i
		}
	}
	return -1
}

func (g *Gen) loopWrites(l *Loop) (comps map[string]bool, locals map[*ssa.Alloc]bool, star bool) {
	comps = map[string]bool{}
	locals = map[*ssa.Alloc]bool{}
	for blk := range l.Blocks {
		for n := range g.writes[blk] {
			comps[n] = true
		}
		for a := range g.lwrites[blk] {
			locals[a] = true
		}
		if g.starW[blk] {
			star = true
		}
	}
	return
}

func (g *Gen) loopHead(b *ssa.BasicBlock, l *Loop, st *State, fwd []*ssa.BasicBlock) *State {
	li := &loopInfo{L: l, EntryPhi: map[*ssa.Phi]Val{}}
	g.loops[b] = li
	// entering values of the header phis
	for _, in := range b.Instrs {
		phi, ok := in.(*ssa.Phi)
		if !ok {
			break
		}
		ev := buildVal(phi.Type(), func(lf leaf) *Term { return Const(g.prefix+"!"+phi.Name()+"@entry"+lf.Path, lf.Sort) })
		for _, p := range fwd {
			idx := predIndex(b, p)
			c := g.edge[[2]int{p.Index, b.Index}]
			if c == nil || c.IsFalse() || g.out[p] == nil {
				continue
			}
			x := g.firstClass(g.val(g.out[p], phi.Edges[idx]), "phi")
			g.equateIf(c, ev, x)
		}
		li.EntryPhi[phi] = ev
	}
	li.PreState = st.clone()
	// inv-entry obligations
	invs := g.loopInvs(l)
	if len(invs) > 0 {
		sc := g.specCtx(st, g.entry, func(name string) (Val, bool) {
			for phi, v := range li.EntryPhi {
				if phi.Comment == name {
					return v, true
				}
			}
			return Val{}, false
		})
		sc.loopHeader = b
		for _, cl := range invs {
			t, err := g.invTerm(sc, cl)
			if err != nil {
				g.BindErrs = append(g.BindErrs, fmt.Sprintf("loop %d invariant %q: %v", l.Ordinal, cl.Text, err))
				continue
			}
			g.oblige(st, "inv-entry", fmt.Sprintf("@loop%d", l.Ordinal), cl.Text, b.Instrs[0].Pos(), t)
		}
	}
	// havoc
	hs := st.clone()
	comps, locals, star := g.loopWrites(l)
	if g.pass == 1 {
		star = true
		for a := range g.localsU {
			locals[a] = true
		}
		for a := range st.Locals {
			locals[a] = true
		}
	}
	var loopAllow map[string][]allowedLoc
	if g.C != nil && g.C.LoopMod[l.Ordinal] != nil && g.pass > 1 && !g.C.LoopMod[l.Ordinal].Star {
		scm := g.specCtx(st, g.entry, func(name string) (Val, bool) {
			for phi, v := range li.EntryPhi {
				if phi.Comment == name {
					return v, true
				}
			}
			return Val{}, false
		})
		scm.loopHeader = b
		loopAllow = g.allowSets(g.C.LoopMod[l.Ordinal].Mods, scm, fmt.Sprintf("loop %d modifies", l.Ordinal))
		li.Allow = loopAllow
	}
	for _, n := range g.uniOrder {
		if star || comps[n] {
			if strings.HasPrefix(n, "G:!") || n == "O:ghost.chancap" {
				continue
			}
			hv := Const(fmt.Sprintf("%s!H:%s@loop%d", g.prefix, n, l.Ordinal), g.universe[n])
			if loopAllow != nil && !strings.HasPrefix(n, "I:") {
				// the loop's modifies clause: everything else keeps its pre-loop value
				// (checked at each back edge)
				g.loopPreClk = st.Clk
				g.assume(g.unchangedOutside(n, hv, st.Heap[n], st.Clk, loopAllow[n], false))
				g.loopPreClk = nil
			}
			hs.Heap[n] = hv
		}
	}
	var las []*ssa.Alloc
	for a := range locals {
		las = append(las, a)
	}
	sort.Slice(las, func(i, j int) bool { return las[i].Name() < las[j].Name() })
	for _, a := range las {
		ty := a.Type().(*types.Pointer).Elem()
		v := buildVal(ty, func(lf leaf) *Term {
			return Const(fmt.Sprintf("%s!L:%s@loop%d%s", g.prefix, a.Name(), l.Ordinal, lf.Path), lf.Sort)
		})
		hs.Locals[a] = v
		g.wfVal(hs, v)
	}
	hs.Epoch = Const(fmt.Sprintf("%s!epoch@loop%d", g.prefix, l.Ordinal), SInt)
	clk := Const(fmt.Sprintf("%s!clk@loop%d", g.prefix, l.Ordinal), SInt)
	for _, n := range g.uniOrder {
		if h := hs.Heap[n]; h != nil && h != st.Heap[n] {
			g.heapClk[h] = clk // havocked at the head: as young as the head state
		}
	}
	g.assume(Le(st.Clk, clk))
	hs.Clk = clk
	for _, in := range b.Instrs {
		phi, ok := in.(*ssa.Phi)
		if !ok {
			break
		}
		nv := g.named(hs, phi.Name(), phi.Type())
		g.env[phi] = nv
	}
	li.HavocState = hs.clone()
	// assume invariants
	if len(invs) > 0 {
		sc := g.specCtx(hs, g.entry, nil)
		sc.loopHeader = b
		for _, cl := range invs {
			t, err := g.invTerm(sc, cl)
			if err != nil {
				continue
			}
			g.assumeAt(hs, t)
		}
	} else if g.C != nil && !g.quiet {
		g.Abstracted[fmt.Sprintf("loop %d has no invariant (havoc with invariant true)", l.Ordinal)] = true
	}
	if loopAllow != nil {
		// the locations an iteration may write are named relative to the current
		// iteration (loop-carried variables at the head); each must lie inside what
		// the clause named at loop entry, or have been allocated since
		sch := g.specCtx(hs, g.entry, nil)
		sch.loopHeader = b
		headAllow := g.allowSets(g.C.LoopMod[l.Ordinal].Mods, sch, fmt.Sprintf("loop %d modifies", l.Ordinal))
		li.Allow = headAllow
		var names []string
		for n := range headAllow {
			names = append(names, n)
		}
		sort.Strings(names)
		for _, n := range names {
			for _, ah := range headAllow[n] {
				if ah.any || ah.sinceEntry || ah.sinceLoop || ah.ref == nil {
					continue
				}
				alts := []*Term{Gt(ah.ref, st.Clk)}
				for _, ae := range loopAllow[n] {
					if ae.any {
						alts = append(alts, True)
						continue
					}
					if ae.ref == nil {
						continue
					}
					c := Eq(ae.ref, ah.ref)
					if ae.lo != nil && ah.lo != nil {
						c = And(c, Le(ae.lo, ah.lo), Le(ah.hi, ae.hi))
					}
					alts = append(alts, c)
				}
				goal := Or(alts...)
				if !goal.IsTrue() {
					g.oblige(hs, "loop-frame-incl", fmt.Sprintf("@loop%d", l.Ordinal), "loop modifies: the location written by an iteration ("+n+") is the one named at loop entry or was allocated inside the loop", b.Instrs[0].Pos(), goal)
				}
			}
		}
	}
	return hs
}

func (g *Gen) loopInvs(l *Loop) []*Clause {
	if g.C == nil {
		return nil
	}
	invs := g.C.LoopInv[l.Ordinal]
	// the hidden index of a range-over-slice loop starts at -1 and only grows: a
	// synthesised (and checked like any other) invariant
	for _, in := range l.Header.Instrs {
		if phi, ok := in.(*ssa.Phi); ok && phi.Comment == "rangeindex" {
			{
				e, _ := ParseExpr("-1 <= rangeindex")
				cl := &Clause{Kind: "loop-invariant", Text: "-1 <= rangeindex && (rangeindex == -1 || rangeindex < <range length>) (synthesised)", E: e, RangeBound: rangeBound(l.Header, phi)}
				invs = append([]*Clause{cl}, invs...)
			}
			break
		}
	}
	return invs
}

func (g *Gen) backEdge(from, header *ssa.BasicBlock, st *State) {
	li := g.loops[header]
	if li == nil {
		return
	}
	c := g.edge[[2]int{from.Index, header.Index}]
	if c == nil || c.IsFalse() {
		return
	}
	bst := st.clone()
	bst.Reach = c
	idx := predIndex(header, from)
	phiVals := map[string]Val{}
	for _, in := range header.Instrs {
		phi, ok := in.(*ssa.Phi)
		if !ok {
			break
		}
		if phi.Comment != "" {
			phiVals[phi.Comment] = g.firstClass(g.val(st, phi.Edges[idx]), "phi")
		}
	}
	invs := g.loopInvs(li.L)
	sc := g.specCtx(bst, g.entry, func(name string) (Val, bool) {
		v, ok := phiVals[name]
		return v, ok
	})
	sc.loopHeader = header
	for _, cl := range invs {
		t, err := g.invTerm(sc, cl)
		if err != nil {
			g.BindErrs = append(g.BindErrs, fmt.Sprintf("loop %d invariant %q: %v", li.L.Ordinal, cl.Text, err))
			continue
		}
		g.oblige(bst, "inv-preserved", fmt.Sprintf("@loop%d", li.L.Ordinal), cl.Text, header.Instrs[0].Pos(), t)
	}
	if li.Allow != nil {
		comps, _, star := g.loopWrites(li.L)
		for _, n := range g.uniOrder {
			if !(star || comps[n]) || strings.HasPrefix(n, "I:") || strings.HasPrefix(n, "G:!") {
				continue
			}
			cur, head := bst.Heap[n], li.HavocState.Heap[n]
			if cur == nil || head == nil || cur == head {
				continue
			}
			g.loopPreClk = li.PreState.Clk
			goal := g.unchangedOutside(n, cur, head, li.HavocState.Clk, li.Allow[n], true)
			g.loopPreClk = nil
			if !goal.IsTrue() {
				g.oblige(bst, "loop-frame", fmt.Sprintf("@loop%d", li.L.Ordinal), "loop modifies: "+n+" unchanged outside the loop's modifies clause", header.Instrs[0].Pos(), goal)
			}
		}
	}
	if g.C != nil {
		if dec := g.C.LoopDec[li.L.Ordinal]; dec != nil {
			// variant: value at the havocked head vs value at the back edge
			scH := g.specCtx(li.HavocState, g.entry, nil)
			scH.loopHeader = header
			v0, err0 := scH.intTerm(dec.E)
			v1, err1 := sc.intTerm(dec.E)
			if err0 != nil || err1 != nil {
				g.BindErrs = append(g.BindErrs, fmt.Sprintf("loop %d decreases %q: %v %v", li.L.Ordinal, dec.Text, err0, err1))
			} else {
				g.oblige(bst, "variant", fmt.Sprintf("@loop%d", li.L.Ordinal), "decreases "+dec.Text, header.Instrs[0].Pos(), And(Le(IntLit(0), v0), Lt(v1, v0)))
			}
		}
	}
}

func recordSub(m map[*Term]*Term, a, b Val) {
	switch a.K {
	case VScalar:
		if b.K == VScalar && a.T != nil && b.T != nil && a.T.S == b.T.S && a.T.Op == "const" {
			m[a.T] = b.T
		}
	case VSlice, VStruct, VTuple:
		for i := range a.F {
			if i < len(b.F) {
				recordSub(m, a.F[i], b.F[i])
			}
		}
	}
}

// escape: a reference that is stored somewhere or handed to a call is no longer
// private to this function.
func (g *Gen) escape(v Val) {
	switch v.K {
	case VScalar:
		if v.T != nil && g.freshRefs[v.T] {
			delete(g.freshRefs, v.T)
		}
	case VAddr:
		if v.A != nil && v.A.Ref != nil && g.freshRefs[v.A.Ref] {
			delete(g.freshRefs, v.A.Ref)
		}
	case VSlice, VStruct, VTuple:
		for _, f := range v.F {
			g.escape(f)
		}
	}
}

func isRefType(t types.Type) bool {
	if t == nil {
		return false
	}
	switch t.Underlying().(type) {
	case *types.Pointer, *types.Map, *types.Chan, *types.Signature, *types.Interface:
		return true
	}
	return false
}

// rangeBound finds the length value a range-over-slice loop compares its hidden
// index against (header: t = phi+1; if t < N).
func rangeBound(h *ssa.BasicBlock, phi *ssa.Phi) ssa.Value {
	if len(h.Instrs) == 0 {
		return nil
	}
	iff, ok := h.Instrs[len(h.Instrs)-1].(*ssa.If)
	if !ok {
		return nil
	}
	cmp, ok := iff.Cond.(*ssa.BinOp)
	if !ok || cmp.Op != token.LSS {
		return nil
	}
	inc, ok := cmp.X.(*ssa.BinOp)
	if !ok || inc.Op != token.ADD || inc.X != ssa.Value(phi) {
		return nil
	}
	return cmp.Y
}

// invTerm translates a loop invariant clause (including the synthesised range bound).
func (g *Gen) invTerm(sc *SCtx, cl *Clause) (*Term, error) {
	t, err := sc.boolTerm(cl.E)
	if err != nil || cl.RangeBound == nil {
		return t, err
	}
	rv, ok := cl.RangeBound.(ssa.Value)
	if !ok {
		return t, nil
	}
	idx, err := sc.ident("rangeindex")
	if err != nil || idx.K != VScalar {
		return t, nil
	}
	n := g.val(sc.state(), rv)
	if n.K != VScalar || n.T == nil || n.T.S != SInt {
		return t, nil
	}
	return And(t, Or(Eq(idx.T, IntLit(-1)), Lt(idx.T, n.T))), nil
}

// checkReads: a verified function with a reads clause may load only from the
// declared components (objects it allocated itself are exempt).
func (g *Gen) checkReads(comp string, a *Addr) {
	if g.C == nil || g.C.Reads == nil || g.C.Trusted || g.quiet || g.readsChecking {
		return
	}
	if a.Root == RGlobal || (a.Ref != nil && g.freshRefs[a.Ref]) {
		return
	}
	if g.readsOK == nil {
		g.readsChecking = true
		g.readsOK = map[string]bool{}
		sc := g.specCtx(g.entry, g.entry, nil)
		for _, n := range g.readsComps(g.C, sc) {
			g.readsOK[n] = true
		}
		g.readsChecking = false
	}
	if g.readsOK[comp] || g.readsSeen[comp] {
		return
	}
	// components first seen now may belong to a declared type: re-resolve lazily
	sc := g.specCtx(g.entry, g.entry, nil)
	g.readsChecking = true
	for _, n := range g.readsComps(g.C, sc) {
		g.readsOK[n] = true
	}
	g.readsChecking = false
	if g.readsOK[comp] {
		return
	}
	if g.readsSeen == nil {
		g.readsSeen = map[string]bool{}
	}
	g.readsSeen[comp] = true
	if g.pass >= 2 {
		g.BindErrs = append(g.BindErrs, "reads clause violated: the function loads from "+comp)
	}
}
