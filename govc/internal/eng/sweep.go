package eng

import (
	"golang.org/x/tools/go/ssa"
	"fmt"
	"os"
	"path/filepath"
	"regexp"
	"sort"
	"strings"
)

// RunSweep runs the zero-annotation safety sweep (and any existing contract) on
// the functions of a package whose key matches the regexp; prints what the
// engine could not model. Debugging aid, not a registered check.
func RunSweep(repo, verifDir, pkg, pattern string) int {
	_ = pkg
	prog, err := Load(repo, []string{"./..."})
	if err != nil {
		fmt.Println(err)
		return 2
	}
	if err := prog.LoadTrusted(filepath.Join(verifDir, "trusted")); err != nil {
		fmt.Println(err)
		return 2
	}
	if err := prog.ResolveImpls(); err != nil {
		fmt.Println(err)
		return 2
	}
	re := regexp.MustCompile(pattern)
	var keys []string
	for k := range prog.Funcs {
		if re.MatchString(ShortKey(k)) {
			keys = append(keys, k)
		}
	}
	sort.Strings(keys)
	scratch := fmt.Sprintf("/var/tmp/vp-sweep-%d", os.Getpid())
	os.MkdirAll(scratch, 0o755)
	defer os.RemoveAll(scratch)
	cfg := &SolverCfg{ScratchDir: scratch, TimeoutS: 5, FirstS: 3}
	for _, k := range keys {
		fn := prog.Funcs[k]
		c := prog.Contracts[k]
		if c == nil {
			c = &Contract{Key: k, LoopInv: map[int][]*Clause{}, LoopDec: map[int]*Clause{}, LoopMod: map[int]*Clause{}, Witnesses: map[string]*Clause{}}
		}
		g := NewGen(prog, fn, c)
		errS := ""
		func() {
			defer func() {
				if e := recover(); e != nil {
					errS = fmt.Sprintf("engine panic: %v", e)
				}
			}()
			if err := g.Run(); err != nil {
				errS = err.Error()
			}
		}()
		fmt.Printf("== %s: %d obligations", ShortKey(k), len(g.Obls))
		if errS != "" {
			fmt.Printf(" ERROR %s", errS)
		}
		fmt.Println()
		for _, u := range g.Unsupported {
			fmt.Println("   unsupported:", u)
		}
		for _, b := range g.BindErrs {
			fmt.Println("   bind:", b)
		}
		var abs []string
		for a := range g.Abstracted {
			abs = append(abs, a)
		}
		sort.Strings(abs)
		for _, a := range abs {
			fmt.Println("   abstracted:", a)
		}
		nf := 0
		for _, o := range g.Obls {
			res := Solve(cfg, o.Script(), o.Name)
			if res.Status != "unsat" {
				nf++
				if nf <= 12 {
					fmt.Printf("   OPEN %s [%s] %s at %s\n", strings.TrimPrefix(o.Name, ShortKey(k)), res.Status, o.Clause, o.Pos)
				}
			}
		}
		if nf > 12 {
			fmt.Printf("   ... %d open obligations in total\n", nf)
		}
	}
	return 0
}


// RunLockScan is a development aid: the structural releaseslock check applied to every
// function of the repository (no contracts needed). It prints the returns that can be
// reached with a plain-Lock()ed mutex still held.
func RunLockScan(repo string) int {
	prog, err := Load(repo, []string{"./..."})
	if err != nil {
		fmt.Println(err)
		return 2
	}
	var keys []string
	for k := range prog.Funcs {
		if strings.HasPrefix(k, ModPath) {
			keys = append(keys, k)
		}
	}
	sort.Strings(keys)
	n := 0
	for _, k := range keys {
		fn := prog.Funcs[k]
		if fn.Blocks == nil {
			continue
		}
		g := NewGen(prog, fn, nil)
		for _, o := range releasesLockObligations(g, fn, k) {
			if o.Goal == False {
				fmt.Printf("LOCKSCAN %s at %s\n", ShortKey(k), o.Pos)
				n++
			}
		}
	}
	fmt.Printf("lockscan: %d returns with a mutex possibly held\n", n)

	// part 2: re-entrant locking. A method "locks" when it calls Lock on a sync mutex
	// reached from its own receiver; a call of such a method on the same receiver, made
	// while the caller may hold the mutex (between its Lock and Unlock, or anywhere after
	// the Lock when the Unlock is deferred), deadlocks (sync mutexes are not reentrant).
	isSync := func(call *ssa.CallCommon, names ...string) bool {
		f := call.StaticCallee()
		if f == nil || f.Pkg == nil || f.Pkg.Pkg.Path() != "sync" {
			return false
		}
		for _, nm := range names {
			if f.Name() == nm {
				return true
			}
		}
		return false
	}
	fromRecv := func(fn *ssa.Function, v ssa.Value) bool {
		if len(fn.Params) == 0 || fn.Signature.Recv() == nil {
			return false
		}
		for i := 0; i < 6; i++ {
			switch x := v.(type) {
			case *ssa.FieldAddr:
				v = x.X
				continue
			case *ssa.Parameter:
				return x == fn.Params[0]
			}
			break
		}
		return false
	}
	locking := map[*ssa.Function]bool{}
	for _, k := range keys {
		fn := prog.Funcs[k]
		for _, b := range fn.Blocks {
			for _, in := range b.Instrs {
				if c, ok := in.(*ssa.Call); ok && isSync(&c.Call, "Lock") && len(c.Call.Args) > 0 && fromRecv(fn, c.Call.Args[0]) {
					locking[fn] = true
				}
			}
		}
	}
	m := 0
	for _, k := range keys {
		fn := prog.Funcs[k]
		if fn.Signature.Recv() == nil || len(fn.Params) == 0 {
			continue
		}
		deferredUnlock := false
		for _, b := range fn.Blocks {
			for _, in := range b.Instrs {
				if d, ok := in.(*ssa.Defer); ok && isSync(&d.Call, "Unlock") {
					deferredUnlock = true
				}
			}
		}
		held := map[*ssa.BasicBlock]bool{}
		step := func(b *ssa.BasicBlock, h bool, visit func(in ssa.Instruction, held bool)) bool {
			for _, in := range b.Instrs {
				if visit != nil {
					visit(in, h)
				}
				if c, ok := in.(*ssa.Call); ok {
					if isSync(&c.Call, "Lock") && len(c.Call.Args) > 0 && fromRecv(fn, c.Call.Args[0]) {
						h = true
					} else if isSync(&c.Call, "Unlock") && !deferredUnlock {
						h = false
					}
				}
			}
			return h
		}
		for changed := true; changed; {
			changed = false
			for _, b := range fn.Blocks {
				if step(b, held[b], nil) {
					for _, sc := range b.Succs {
						if !held[sc] {
							held[sc] = true
							changed = true
						}
					}
				}
			}
		}
		for _, b := range fn.Blocks {
			step(b, held[b], func(in ssa.Instruction, h bool) {
				c, ok := in.(*ssa.Call)
				if !ok || !h {
					return
				}
				callee := c.Call.StaticCallee()
				if callee == nil || !locking[callee] || len(c.Call.Args) == 0 {
					return
				}
				if p, ok := c.Call.Args[0].(*ssa.Parameter); ok && p == fn.Params[0] {
					fmt.Printf("LOCKSCAN-REENTRANT %s calls %s with its mutex possibly held at %s\n", ShortKey(k), callee.Name(), prog.Prog.Fset.Position(in.Pos()))
					m++
				}
			})
		}
	}
	fmt.Printf("lockscan: %d calls of a locking method with the mutex possibly held\n", m)
	return 0
}
