package eng

import (
	"fmt"
	"os"
	"path/filepath"
	"regexp"
	"sort"
	"strings"
)

// RunSweep runs the zero-annotation safety sweep (and any existing contract) on
// the functions of a package whose key matches the regexp; prints what the
// engine could not model. Debugging aid, not a registered check.
func RunSweep(repo, verifDir, pkg, pattern string) int {
	_ = pkg
	prog, err := Load(repo, []string{"./..."})
	if err != nil {
		fmt.Println(err)
		return 2
	}
	if err := prog.LoadTrusted(filepath.Join(verifDir, "trusted")); err != nil {
		fmt.Println(err)
		return 2
	}
	if err := prog.ResolveImpls(); err != nil {
		fmt.Println(err)
		return 2
	}
	re := regexp.MustCompile(pattern)
	var keys []string
	for k := range prog.Funcs {
		if re.MatchString(ShortKey(k)) {
			keys = append(keys, k)
		}
	}
	sort.Strings(keys)
	scratch := fmt.Sprintf("/var/tmp/vp-sweep-%d", os.Getpid())
	os.MkdirAll(scratch, 0o755)
	defer os.RemoveAll(scratch)
	cfg := &SolverCfg{ScratchDir: scratch, TimeoutS: 5, FirstS: 3}
	for _, k := range keys {
		fn := prog.Funcs[k]
		c := prog.Contracts[k]
		if c == nil {
			c = &Contract{Key: k, LoopInv: map[int][]*Clause{}, LoopDec: map[int]*Clause{}, LoopMod: map[int]*Clause{}, Witnesses: map[string]*Clause{}}
		}
		g := NewGen(prog, fn, c)
		errS := ""
		func() {
			defer func() {
				if e := recover(); e != nil {
					errS = fmt.Sprintf("engine panic: %v", e)
				}
			}()
			if err := g.Run(); err != nil {
				errS = err.Error()
			}
		}()
		fmt.Printf("== %s: %d obligations", ShortKey(k), len(g.Obls))
		if errS != "" {
			fmt.Printf(" ERROR %s", errS)
		}
		fmt.Println()
		for _, u := range g.Unsupported {
			fmt.Println("   unsupported:", u)
		}
		for _, b := range g.BindErrs {
			fmt.Println("   bind:", b)
		}
		var abs []string
		for a := range g.Abstracted {
			abs = append(abs, a)
		}
		sort.Strings(abs)
		for _, a := range abs {
			fmt.Println("   abstracted:", a)
		}
		nf := 0
		for _, o := range g.Obls {
			res := Solve(cfg, o.Script(), o.Name)
			if res.Status != "unsat" {
				nf++
				if nf <= 12 {
					fmt.Printf("   OPEN %s [%s] %s at %s\n", strings.TrimPrefix(o.Name, ShortKey(k)), res.Status, o.Clause, o.Pos)
				}
			}
		}
		if nf > 12 {
			fmt.Printf("   ... %d open obligations in total\n", nf)
		}
	}
	return 0
}


// RunLockScan is a development aid: the structural releaseslock check applied to every
// function of the repository (no contracts needed). It prints the returns that can be
// reached with a plain-Lock()ed mutex still held.
func RunLockScan(repo string) int {
	prog, err := Load(repo, []string{"./..."})
	if err != nil {
		fmt.Println(err)
		return 2
	}
	var keys []string
	for k := range prog.Funcs {
		if strings.HasPrefix(k, ModPath) {
			keys = append(keys, k)
		}
	}
	sort.Strings(keys)
	n := 0
	for _, k := range keys {
		fn := prog.Funcs[k]
		if fn.Blocks == nil {
			continue
		}
		g := NewGen(prog, fn, nil)
		for _, o := range releasesLockObligations(g, fn, k) {
			if o.Goal == False {
				fmt.Printf("LOCKSCAN %s at %s\n", ShortKey(k), o.Pos)
				n++
			}
		}
	}
	fmt.Printf("lockscan: %d returns with a mutex possibly held\n", n)
	return 0
}
