package eng

import (
	"math/big"
	"sort"
	"strings"
)

// ---------------------------------------------------------------- s-expressions

type SExpr struct {
	Atom string
	List []*SExpr
	IsL  bool
}

func parseSExprs(s string) []*SExpr {
	var out []*SExpr
	p := 0
	var parse func() *SExpr
	skip := func() {
		for p < len(s) {
			c := s[p]
			if c == ' ' || c == '\n' || c == '\t' || c == '\r' {
				p++
			} else if c == ';' {
				for p < len(s) && s[p] != '\n' {
					p++
				}
			} else {
				break
			}
		}
	}
	parse = func() *SExpr {
		skip()
		if p >= len(s) {
			return nil
		}
		if s[p] == '(' {
			p++
			e := &SExpr{IsL: true}
			for {
				skip()
				if p >= len(s) {
					return e
				}
				if s[p] == ')' {
					p++
					return e
				}
				c := parse()
				if c == nil {
					return e
				}
				e.List = append(e.List, c)
			}
		}
		if s[p] == ')' {
			p++
			return nil
		}
		start := p
		if s[p] == '|' {
			p++
			for p < len(s) && s[p] != '|' {
				p++
			}
			p++
			return &SExpr{Atom: s[start+1 : p-1]}
		}
		if s[p] == '"' {
			p++
			for p < len(s) && s[p] != '"' {
				p++
			}
			p++
			return &SExpr{Atom: s[start:p]}
		}
		for p < len(s) && !strings.ContainsRune(" \n\t\r()", rune(s[p])) {
			p++
		}
		return &SExpr{Atom: s[start:p]}
	}
	for {
		skip()
		if p >= len(s) {
			break
		}
		e := parse()
		if e != nil {
			out = append(out, e)
		}
	}
	return out
}

func (e *SExpr) String() string {
	if !e.IsL {
		return e.Atom
	}
	var parts []string
	for _, c := range e.List {
		parts = append(parts, c.String())
	}
	return "(" + strings.Join(parts, " ") + ")"
}

// intValue interprets numerals, (- n) and bit-vector literals.
func (e *SExpr) intValue() (*big.Int, bool) {
	if !e.IsL {
		if strings.HasPrefix(e.Atom, "#x") {
			v, ok := new(big.Int).SetString(e.Atom[2:], 16)
			return v, ok
		}
		if strings.HasPrefix(e.Atom, "#b") {
			v, ok := new(big.Int).SetString(e.Atom[2:], 2)
			return v, ok
		}
		v, ok := new(big.Int).SetString(e.Atom, 10)
		return v, ok
	}
	if len(e.List) == 2 && e.List[0].Atom == "-" {
		v, ok := e.List[1].intValue()
		if ok {
			return new(big.Int).Neg(v), true
		}
	}
	return nil, false
}

// Model maps constant names to their model values (scalars only are interpreted).
type Model struct {
	Vals map[string]*SExpr
}

// ParseModel reads the (get-model) output of z3 / cvc5.
func ParseModel(out string) *Model {
	m := &Model{Vals: map[string]*SExpr{}}
	i := strings.Index(out, "\n")
	if i < 0 {
		return m
	}
	for _, e := range parseSExprs(out[i+1:]) {
		items := []*SExpr{e}
		if e.IsL && len(e.List) > 0 && e.List[0].IsL {
			items = e.List
		} else if e.IsL && len(e.List) > 0 && e.List[0].Atom == "model" {
			items = e.List[1:]
		}
		for _, d := range items {
			if d.IsL && len(d.List) == 5 && d.List[0].Atom == "define-fun" && d.List[2].IsL && len(d.List[2].List) == 0 {
				m.Vals[d.List[1].Atom] = d.List[4]
			}
		}
	}
	return m
}

func (m *Model) Int(name string) (*big.Int, bool) {
	v, ok := m.Vals[name]
	if !ok {
		return nil, false
	}
	return v.intValue()
}

func (m *Model) Bool(name string) (bool, bool) {
	v, ok := m.Vals[name]
	if !ok || v.IsL {
		return false, false
	}
	return v.Atom == "true", v.Atom == "true" || v.Atom == "false"
}

// modelSummary extracts the values of parameters and named SSA registers.
func (g *Gen) modelSummary(m *Model) map[string]string {
	out := map[string]string{}
	var names []string
	for n := range m.Vals {
		names = append(names, n)
	}
	sort.Strings(names)
	pre := g.prefix + "!"
	for _, n := range names {
		if !strings.HasPrefix(n, pre) {
			continue
		}
		short := strings.TrimPrefix(n, pre)
		if strings.Contains(short, "!") || strings.HasPrefix(short, "H:") || strings.HasPrefix(short, "L:") {
			continue
		}
		v := m.Vals[n]
		s := v.String()
		if len(s) > 200 {
			s = s[:200] + "..."
		}
		out[short] = s
	}
	return out
}
