package eng

import (
	"fmt"
	"strings"
	"go/token"
	"go/types"

	"golang.org/x/tools/go/ssa"
)

// ---------------------------------------------------------------- maps

type mapInfo struct {
	name string
	K, V types.Type
	ks   *Sort
}

func (g *Gen) mapInfo(ty types.Type) *mapInfo {
	m := ty.Underlying().(*types.Map)
	mi := &mapInfo{name: "M:" + typeStr(m), K: m.Key(), V: m.Elem()}
	mi.ks = scalarSort(m.Key())
	if mi.ks == nil {
		mi.ks = SInt // struct keys are injected into Int
	}
	return mi
}

// keyTerm maps a key value to its SMT index term.
func (g *Gen) keyTerm(k Val, kt types.Type) *Term {
	if k.K == VAddr {
		k = g.firstClass(k, "map key")
	}
	if k.K == VScalar && k.T != nil {
		return k.T
	}
	if k.KeyT != nil {
		return k.KeyT
	}
	lvs := leavesOf(kt)
	var args []*Term
	for _, lf := range lvs {
		lv := k.at(lf.Acc)
		if lv.K != VScalar || lv.T == nil {
			return g.fresh("key", SInt)
		}
		args = append(args, lv.T)
	}
	t := App("vp_key!"+typeStr(kt), SInt, args...)
	for i, lf := range lvs {
		g.assume(Eq(App(fmt.Sprintf("vp_keyf!%s!%d", typeStr(kt), i), lf.Sort, t), args[i]))
	}
	return t
}

// keyVal decodes an index term back into a key value.
func (g *Gen) keyVal(st *State, t *Term, kt types.Type) Val {
	if scalarSort(kt) != nil {
		v := scalar(t, kt)
		g.wfVal(st, v)
		return v
	}
	lvs := leavesOf(kt)
	i := 0
	var args []*Term
	v := buildVal(kt, func(lf leaf) *Term {
		p := App(fmt.Sprintf("vp_keyf!%s!%d", typeStr(kt), i), lf.Sort, t)
		i++
		args = append(args, p)
		return p
	})
	_ = lvs
	g.assume(Eq(App("vp_key!"+typeStr(kt), SInt, args...), t))
	g.wfVal(st, v)
	v.KeyT = t
	return v
}

func (g *Gen) mapDom(st *State, mi *mapInfo) (*Term, string, *Sort) {
	s := ArraySort(SInt, ArraySort(mi.ks, SBool))
	n := mi.name + ":dom"
	h := g.heapGet(st, n, s)
	// the nil map is empty
	g.assume(Eq(Select(Const("H0:"+n, s), IntLit(0)), ConstArray(ArraySort(mi.ks, SBool), False)))
	return h, n, s
}

func (g *Gen) mapSizeComp(st *State, mi *mapInfo) (*Term, string, *Sort) {
	s := ArraySort(SInt, SInt)
	n := mi.name + ":size"
	return g.heapGet(st, n, s), n, s
}

func (g *Gen) mapSize(st *State, m Val, ty types.Type) *Term {
	mi := g.mapInfo(ty)
	h, _, _ := g.mapSizeComp(st, mi)
	r := Select(h, m.T)
	g.assume(Le(IntLit(0), r))
	g.assume(Implies(Eq(m.T, IntLit(0)), Eq(r, IntLit(0))))
	return r
}

func (g *Gen) mapValLeaves(st *State, mi *mapInfo) []leaf { return leavesOf(mi.V) }

func (g *Gen) mapRead(st *State, m Val, ty types.Type, kt *Term) (Val, *Term) {
	mi := g.mapInfo(ty)
	dom, _, _ := g.mapDom(st, mi)
	in := Select(Select(dom, m.T), kt)
	in = And(Ne(m.T, IntLit(0)), in)
	v := buildVal(mi.V, func(lf leaf) *Term {
		s := ArraySort(SInt, ArraySort(mi.ks, lf.Sort))
		if isRefType(lf.Ty) || strings.HasSuffix(lf.Path, "#arr") {
			g.refComps[mi.name+":val"+lf.Path] = true
		}
		h := g.heapGet(st, mi.name+":val"+lf.Path, s)
		return Ite(in, Select(Select(h, m.T), kt), zeroTerm(lf.Sort))
	})
	g.wfVal(st, v)
	sz := g.mapSize(st, m, ty)
	g.assume(Implies(in, Le(IntLit(1), sz)))
	return v, in
}

func (g *Gen) makeMap(st *State, x *ssa.MakeMap) {
	r := g.allocRef(st, x.Name())
	mi := g.mapInfo(x.Type())
	dom, n, s := g.mapDom(st, mi)
	g.heapSet(st, n, s, Store(dom, r, ConstArray(ArraySort(mi.ks, SBool), False)))
	sz, n2, s2 := g.mapSizeComp(st, mi)
	g.heapSet(st, n2, s2, Store(sz, r, IntLit(0)))
	g.env[x] = scalar(r, x.Type())
}

func (g *Gen) lookup(st *State, x *ssa.Lookup) {
	if isStringType(x.X.Type()) {
		base, iv := g.val(st, x.X), g.val(st, x.Index)
		g.strlenNonNeg(base.T)
		g.oblige(st, "index", "", "string index out of range", x.Pos(), And(Le(IntLit(0), iv.T), Lt(iv.T, App("vp_strlen", SInt, base.T))))
		r := App("vp_strat", SInt, base.T, iv.T)
		g.assume(And(Le(IntLit(0), r), Le(r, IntLit(255))))
		g.bind(st, x, scalar(r, x.Type()))
		return
	}
	m := g.val(st, x.X)
	if m.K != VScalar {
		g.env[x] = g.declare(st, x.Name(), x.Type())
		return
	}
	mt := x.X.Type()
	kt := g.keyTerm(g.val(st, x.Index), mt.Underlying().(*types.Map).Key())
	v, in := g.mapRead(st, m, mt, kt)
	if x.CommaOk {
		g.env[x] = Val{K: VTuple, Ty: x.Type(), F: []Val{v, scalar(in, types.Typ[types.Bool])}}
		return
	}
	v.Ty = x.Type()
	g.bind(st, x, v)
}

func (g *Gen) mapUpdate(st *State, x *ssa.MapUpdate) {
	m := g.val(st, x.Map)
	if m.K != VScalar {
		g.unsupported("MapUpdate on unmodelled map")
		return
	}
	mt := x.Map.Type()
	mi := g.mapInfo(mt)
	g.oblige(st, "nil-map", "", "assignment to entry in nil map", x.Pos(), Ne(m.T, IntLit(0)))
	kt := g.keyTerm(g.val(st, x.Key), mi.K)
	v := g.val(st, x.Value)
	if v.K == VAddr {
		v = g.firstClass(v, "map value")
	}
	g.escape(v)
	dom, n, s := g.mapDom(st, mi)
	was := Select(Select(dom, m.T), kt)
	g.heapSet(st, n, s, Store(dom, m.T, Store(Select(dom, m.T), kt, True)))
	for _, lf := range leavesOf(mi.V) {
		vs := ArraySort(SInt, ArraySort(mi.ks, lf.Sort))
		h := g.heapGet(st, mi.name+":val"+lf.Path, vs)
		lv := v.at(lf.Acc)
		var t *Term
		if lv.K == VScalar && lv.T != nil {
			t = lv.T
		} else {
			t = g.fresh("opq", lf.Sort)
		}
		g.heapSet(st, mi.name+":val"+lf.Path, vs, Store(h, m.T, Store(Select(h, m.T), kt, t)))
	}
	sz, n2, s2 := g.mapSizeComp(st, mi)
	old := g.mapSize(st, m, mt)
	g.heapSet(st, n2, s2, Store(sz, m.T, Ite(was, old, Add(old, IntLit(1)))))
}

func (g *Gen) mapDelete(st *State, m Val, mt types.Type, k Val) {
	if m.K != VScalar {
		return
	}
	mi := g.mapInfo(mt)
	kt := g.keyTerm(k, mi.K)
	dom, n, s := g.mapDom(st, mi)
	was := And(Ne(m.T, IntLit(0)), Select(Select(dom, m.T), kt))
	g.heapSet(st, n, s, Ite(Eq(m.T, IntLit(0)), dom, Store(dom, m.T, Store(Select(dom, m.T), kt, False))))
	sz, n2, s2 := g.mapSizeComp(st, mi)
	old := g.mapSize(st, m, mt)
	g.heapSet(st, n2, s2, Store(sz, m.T, Ite(was, Sub(old, IntLit(1)), old)))
}

func (g *Gen) havocMap(st *State, m Val) error {
	if m.K != VScalar || m.Ty == nil {
		return fmt.Errorf("mapof() of non-map")
	}
	if _, ok := m.Ty.Underlying().(*types.Map); !ok {
		return fmt.Errorf("mapof() of non-map")
	}
	mi := g.mapInfo(m.Ty)
	dom, n, s := g.mapDom(st, mi)
	g.heapSet(st, n, s, Store(dom, m.T, g.fresh("mapdom", ArraySort(mi.ks, SBool))))
	for _, lf := range leavesOf(mi.V) {
		vs := ArraySort(SInt, ArraySort(mi.ks, lf.Sort))
		h := g.heapGet(st, mi.name+":val"+lf.Path, vs)
		g.heapSet(st, mi.name+":val"+lf.Path, vs, Store(h, m.T, g.fresh("mapval", ArraySort(mi.ks, lf.Sort))))
	}
	sz, n2, s2 := g.mapSizeComp(st, mi)
	g.heapSet(st, n2, s2, Store(sz, m.T, g.fresh("mapsize", SInt)))
	return nil
}

// ---------------------------------------------------------------- range / next

func (g *Gen) seenName(r *ssa.Range) string { return "I:" + r.Name() + ":seen" }

func (g *Gen) rangeInstr(st *State, x *ssa.Range) {
	if _, ok := x.X.Type().Underlying().(*types.Map); !ok {
		g.unsupported("range over %s", typeStr(x.X.Type()))
		g.env[x] = Val{K: VOpaque, Ty: x.Type()}
		return
	}
	mi := g.mapInfo(x.X.Type())
	s := ArraySort(mi.ks, SBool)
	g.heapSet(st, g.seenName(x), s, ConstArray(s, False))
	g.env[x] = Val{K: VOpaque, Ty: x.Type()}
}

func (g *Gen) next(st *State, x *ssa.Next) {
	r, ok := x.Iter.(*ssa.Range)
	if !ok || x.IsString {
		g.unsupported("next over string / non-range iterator")
		g.env[x] = g.declare(st, x.Name(), x.Type())
		return
	}
	mt, isMap := r.X.Type().Underlying().(*types.Map)
	if !isMap {
		g.env[x] = g.declare(st, x.Name(), x.Type())
		return
	}
	m := g.val(st, r.X)
	mi := g.mapInfo(r.X.Type())
	ss := ArraySort(mi.ks, SBool)
	seen := g.heapGet(st, g.seenName(r), ss)
	dom, _, _ := g.mapDom(st, mi)
	d := Select(dom, m.T)
	okT := Const(g.prefix+"!"+x.Name()+".ok", SBool)
	kT := Const(g.prefix+"!"+x.Name()+".key", mi.ks)
	g.assume(Implies(okT, And(Ne(m.T, IntLit(0)), Select(d, kT), Not(Select(seen, kT)))))
	kb := BoundVar("k", mi.ks)
	g.assume(Implies(Not(okT), ForallPat([]*Term{kb}, Implies(Select(d, kb), Select(seen, kb)), Select(d, kb))))
	g.heapSet(st, g.seenName(r), ss, Ite(okT, Store(seen, kT, True), seen))
	kv := g.keyVal(st, kT, mt.Key())
	vv := buildVal(mt.Elem(), func(lf leaf) *Term {
		s := ArraySort(SInt, ArraySort(mi.ks, lf.Sort))
		h := g.heapGet(st, mi.name+":val"+lf.Path, s)
		return Select(Select(h, m.T), kT)
	})
	g.wfVal(st, vv)
	g.env[x] = Val{K: VTuple, Ty: x.Type(), F: []Val{scalar(okT, types.Typ[types.Bool]), kv, vv}}
}

// ---------------------------------------------------------------- defer / go / channels

type deferred struct {
	D    *ssa.Defer
	Cond *Term
	Args []Val
	Fn   Val
}

func (g *Gen) deferInstr(st *State, x *ssa.Defer) {
	d := deferred{D: x, Cond: st.Reach}
	for _, a := range x.Call.Args {
		d.Args = append(d.Args, g.val(st, a))
	}
	if !x.Call.IsInvoke() {
		if _, isFn := x.Call.Value.(*ssa.Function); !isFn {
			if _, isB := x.Call.Value.(*ssa.Builtin); !isB {
				d.Fn = g.val(st, x.Call.Value)
			}
		}
	}
	if g.cfg != nil {
		for _, l := range g.cfg.Loops {
			if l.Blocks[x.Block()] {
				g.unsupported("defer inside a loop")
			}
		}
	}
	g.defers = append(g.defers, d)
}

func (g *Gen) runDefers(st *State, x *ssa.RunDefers) {
	g.inDefers = true
	defer func() { g.inDefers = false }()
	for i := len(g.defers) - 1; i >= 0; i-- {
		d := g.defers[i]
		if !d.D.Block().Dominates(x.Block()) {
			// conditionally registered: run on a copy and merge under its condition
			alt := st.clone()
			alt.Reach = And(st.Reach, d.Cond)
			g.runDeferred(alt, d)
			g.mergeCond(st, d.Cond, alt)
			continue
		}
		g.runDeferred(st, d)
	}
}

func (g *Gen) mergeCond(st *State, c *Term, alt *State) {
	if alt.Epoch != st.Epoch {
		st.Epoch = Ite(c, alt.Epoch, st.Epoch)
	}
	for _, n := range g.uniOrder {
		a, b := alt.Heap[n], st.Heap[n]
		if a != nil && b != nil && a != b {
			st.Heap[n] = Ite(c, a, b)
		}
	}
	if alt.Clk != st.Clk {
		st.Clk = Ite(c, alt.Clk, st.Clk)
	}
}

func (g *Gen) runDeferred(st *State, d deferred) {
	cc := &d.D.Call
	pos := d.D.Pos()
	resTy := types.Type(cc.Signature().Results())
	if cc.IsInvoke() {
		recv := d.Fn
		if recv.T == nil {
			recv = g.val(st, cc.Value)
		}
		key := ifaceMethodKey(cc.Value.Type(), cc.Method)
		c := g.P.ContractFor(key)
		sig := cc.Method.Type().(*types.Signature)
		names := []string{"recv"}
		for i := 0; i < sig.Params().Len(); i++ {
			names = append(names, sig.Params().At(i).Name())
		}
		g.applyContract(st, c, key, names, append([]Val{recv}, d.Args...), sig, resTy, pos, false)
		return
	}
	switch callee := cc.Value.(type) {
	case *ssa.Function:
		g.staticCall(st, callee, d.Args, resTy, pos)
	case *ssa.MakeClosure:
		g.closureCall(st, callee.Fn.(*ssa.Function), callee, d.Args, resTy, pos)
	case *ssa.Builtin:
		if callee.Name() == "close" && g.C != nil && g.C.ChanState && len(d.Args) == 1 && d.Args[0].K == VScalar && d.Args[0].T != nil {
			n := "O:ghost.closed"
			h := g.heapGet(st, n, ArraySort(SInt, SInt))
			g.oblige(st, "chan-close", "", "close of a channel that is already closed (ghost closed)", pos, Eq(Select(h, d.Args[0].T), IntLit(0)))
			g.heapSet(st, n, ArraySort(SInt, SInt), Store(g.heapGet(st, n, ArraySort(SInt, SInt)), d.Args[0].T, IntLit(1)))
			return
		}
		if callee.Name() == "close" || callee.Name() == "recover" {
			return
		}
		g.unsupported("deferred builtin %s", callee.Name())
	default:
		cb := g.callbackContract(cc.Value)
		if cb == nil {
			cb = g.resultCallback(cc.Value)
		}
		if cb != nil {
			sig := cc.Signature()
			g.applyContract(st, cb, cb.Key, g.calleeNames(nil, sig, cb), d.Args, sig, resTy, pos, false)
			return
		}
		g.Abstracted["deferred call through function value (heap havocked)"] = true
		g.havocAll(st, "deferred dynamic call")
	}
}

func (g *Gen) goInstr(st *State, x *ssa.Go) {
	// No interleaving semantics: if the spawned function has a contract, its frame is
	// applied at the spawn point (exact when it modifies nothing the caller tracks);
	// otherwise everything is havocked there.
	if f, ok := x.Call.Value.(*ssa.Function); ok {
		key := FuncKey(f)
		if f.Origin() != nil {
			key = FuncKey(f.Origin())
		}
		if c := g.P.ContractFor(key); c != nil {
			var args []Val
			for _, a := range x.Call.Args {
				args = append(args, g.val(st, a))
			}
			g.Abstracted["go statement at "+g.pos(x.Pos())+": the spawned function's contract frame is applied at the spawn point; later interference is not modelled"] = true
			g.applyContract(st, c, key, g.calleeNames(f, f.Signature, c), args, f.Signature, f.Signature.Results(), x.Pos(), f.Blocks != nil)
			return
		}
	}
	g.Abstracted["go statement at "+g.pos(x.Pos())+": goroutine body not executed here; heap havocked at the spawn point"] = true
	g.havocAll(st, "go")
}

func (g *Gen) send(st *State, x *ssa.Send) {
	ch := g.val(st, x.Chan)
	if g.C != nil && g.C.ChanState && !g.quiet && ch.K == VScalar && ch.T != nil {
		h := g.heapGet(st, "O:ghost.closed", ArraySort(SInt, SInt))
		g.oblige(st, "chan-send", "", "send on a closed channel (ghost closed)", x.Pos(), Eq(Select(h, ch.T), IntLit(0)))
	}
	g.escape(g.val(st, x.X))
	g.Abstracted["channel send: blocking and closed-channel state not modelled"] = true
}

func (g *Gen) recv(st *State, x *ssa.UnOp) {
	g.Abstracted["channel receive: value unconstrained"] = true
	v := g.declare(st, x.Name(), x.Type())
	g.env[x] = v
	et := x.Type()
	if x.CommaOk {
		if tt, ok := x.Type().(*types.Tuple); ok && tt.Len() > 0 && v.K == VTuple && len(v.F) > 0 {
			g.receivedFacts(st, v.F[0], tt.At(0).Type())
		}
		return
	}
	g.receivedFacts(st, v, et)
}

// receivedFacts applies the contract's `assume received <type>: E(v)` clauses.
func (g *Gen) receivedFacts(st *State, v Val, et types.Type) {
	if g.C == nil || g.quiet {
		return
	}
	for _, cl := range g.C.RecvAssumes {
		if cl.Callee != typeStr(et) && cl.Callee != et.String() {
			continue
		}
		sc := g.specCtxVars(st, g.entry, map[string]Val{"v": v})
		sc.useParams = true
		t, err := sc.boolTerm(cl.E)
		if err != nil {
			g.BindErrs = append(g.BindErrs, fmt.Sprintf("assume %q: %v", cl.Text, err))
			continue
		}
		g.assumeAt(st, t)
		g.Assumed["assume "+cl.Text+" because "+cl.Why] = true
	}
}

func (g *Gen) selectInstr(st *State, x *ssa.Select) {
	g.Abstracted["select: case choice and received values unconstrained"] = true
	v := g.declare(st, x.Name(), x.Type())
	if v.K == VTuple && len(v.F) > 0 && v.F[0].K == VScalar {
		lo := IntLit(0)
		if !x.Blocking {
			lo = IntLit(-1)
		}
		g.assume(And(Le(lo, v.F[0].T), Lt(v.F[0].T, IntLit(int64(len(x.States))))))
	}
	g.env[x] = v
	// received values follow (index, recvOk) in the order of the receive cases
	k := 2
	for _, sst := range x.States {
		if sst.Dir == types.RecvOnly {
			if v.K == VTuple && k < len(v.F) {
				if ch, ok := sst.Chan.Type().Underlying().(*types.Chan); ok {
					g.receivedFacts(st, v.F[k], ch.Elem())
				}
			}
			k++
		}
	}
}

func (g *Gen) makeClosure(st *State, x *ssa.MakeClosure) {
	r := g.allocRef(st, x.Name())
	// a closure that is only deferred by this very function runs in this frame at
	// exit: what it captures does not escape through it
	deferOnly := x.Referrers() != nil
	if deferOnly {
		for _, u := range *x.Referrers() {
			switch u.(type) {
			case *ssa.Defer, *ssa.DebugRef:
			default:
				deferOnly = false
			}
		}
	}
	for _, b := range x.Bindings {
		v := g.val(st, b)
		if !deferOnly {
			g.escape(v)
		}
		if v.K == VAddr && !(v.A.Root == RObj && len(v.A.Path) == 0) {
			g.unsupported("closure captures a local cell by reference (%s)", b.Name())
		}
	}
	g.env[x] = scalar(r, x.Type())
}

// ---------------------------------------------------------------- special callees

// special handles callees with built-in semantics (locks, atomics are in trusted specs).
func (g *Gen) special(st *State, key string, f *ssa.Function, args []Val, resTy types.Type, pos token.Pos) (Val, bool) {
	return Val{}, false
}

type retPoint struct {
	st   *State
	vals []Val
}

// specCall unfolds a ghost spec function at a call site (fuel-bounded) and ties the
// result to an uninterpreted application so that equal arguments give equal results.
func (g *Gen) specCall(st *State, f *ssa.Function, c *Contract, args []Val, resTy types.Type, pos token.Pos) Val {
	key := FuncKey(f)
	// uninterpreted application over the flattened arguments (slices contribute
	// their contents array, offset and length)
	var flat []*Term
	for i, a := range args {
		flat = append(flat, g.flattenArg(st, a, f.Params[i].Type())...)
	}
	var res Val
	res = buildVal(resTy, func(lf leaf) *Term {
		return App("vp_spec!"+ShortKey(key)+lf.Path, lf.Sort, flat...)
	})
	g.wfVal(st, res)
	g.checkDecreases(st, f, c, args, pos)
	fuel := c.Fuel
	if fuel == 0 {
		fuel = 1
	}
	if g.inlineDepth >= fuel {
		return res
	}
	body := g.inlineBody(st, f, args)
	if body != nil {
		g.equateIf(st.Reach, res, *body)
	}
	return res
}

func (g *Gen) flattenArg(st *State, a Val, ty types.Type) []*Term {
	switch a.K {
	case VScalar:
		if a.T != nil {
			return []*Term{a.T}
		}
	case VSlice:
		et := ty.Underlying().(*types.Slice).Elem()
		var out []*Term
		for _, lf := range leavesOf(et) {
			name := g.compName(&Addr{Root: RElem, RootT: et}, lf)
			h := g.heapGet(st, name, g.compSort(RElem, lf.Sort))
			out = append(out, Select(h, a.F[0].T))
		}
		return append(out, a.F[1].T, a.F[2].T)
	case VStruct, VTuple:
		var out []*Term
		for i, f := range a.F {
			var ft types.Type
			if s, ok := ty.Underlying().(*types.Struct); ok {
				ft = s.Field(i).Type()
			}
			out = append(out, g.flattenArg(st, f, ft)...)
		}
		return out
	}
	return []*Term{g.fresh("opqarg", SInt)}
}

// inlineBody symbolically executes a loop-free pure function on the given
// arguments and returns its result as an ite over its return points.
func (g *Gen) inlineBody(st *State, f *ssa.Function, args []Val) *Val {
	cfg, err := AnalyzeCFG(f)
	if err != nil || len(cfg.Loops) > 0 {
		g.unsupported("spec function %s has loops or irreducible flow", f.Name())
		return nil
	}
	sub := &Gen{P: g.P, Fn: f, Key: FuncKey(f), cfg: cfg}
	sub.prefix = fmt.Sprintf("%s!inl%d!%s", g.prefix, g.nextInline(), f.Name())
	sub.Assumed = g.Assumed
	sub.Abstracted = g.Abstracted
	sub.universe = g.universe
	sub.uniOrder = g.uniOrder
	sub.localsU = map[*ssa.Alloc]bool{}
	sub.writes = map[*ssa.BasicBlock]map[string]bool{}
	sub.lwrites = map[*ssa.BasicBlock]map[*ssa.Alloc]bool{}
	sub.starW = map[*ssa.BasicBlock]bool{}
	sub.partialStar = map[*ssa.BasicBlock]bool{}
	sub.reset()
	sub.Defs = g.Defs
	sub.defSeen = g.defSeen
	sub.defBlk = g.defBlk
	sub.tagBlock = g.effBlock()
	sub.strLits = g.strLits
	sub.quiet = true
	sub.pass = g.pass
	sub.inlineDepth = g.inlineDepth + 1
	sub.inlineCounter = g.inlineCounterPtr()
	sub.collectDebug()
	ist := st.clone()
	ist.Locals = map[*ssa.Alloc]Val{}
	for i, p := range f.Params {
		if i < len(args) {
			sub.env[p] = args[i]
			sub.params[p.Name()] = args[i]
		}
	}
	sub.entry = ist.clone()
	for _, b := range cfg.Order {
		sub.block(b, ist)
	}
	g.Defs = sub.Defs
	g.uniOrder = sub.uniOrder
	g.Unsupported = append(g.Unsupported, sub.Unsupported...)
	if len(sub.retVals) == 0 {
		return nil
	}
	// result = value at whichever return point is reached
	resTy := types.Type(f.Signature.Results())
	if f.Signature.Results().Len() == 1 {
		resTy = f.Signature.Results().At(0).Type()
	}
	out := buildVal(resTy, func(lf leaf) *Term { return g.fresh("inl:"+f.Name()+lf.Path, lf.Sort) })
	for _, rp := range sub.retVals {
		var v Val
		if len(rp.vals) == 1 {
			v = rp.vals[0]
		} else {
			v = Val{K: VTuple, F: rp.vals}
		}
		g.equateIf(rp.st.Reach, out, v)
	}
	return &out
}

func (g *Gen) nextInline() int {
	p := g.inlineCounterPtr()
	*p++
	return *p
}

func (g *Gen) inlineCounterPtr() *int {
	if g.inlineCounter == nil {
		g.inlineCounter = new(int)
	}
	return g.inlineCounter
}

// checkDecreases: termination of recursive spec functions / lemmas — at a
// recursive call the measure is non-negative and strictly smaller.
func (g *Gen) checkDecreases(st *State, f *ssa.Function, c *Contract, args []Val, pos token.Pos) {
	if g.Fn != f || c.Decreases == nil || g.quiet {
		return
	}
	vars := map[string]Val{}
	for i, p := range f.Params {
		if i < len(args) {
			vars[p.Name()] = args[i]
		}
	}
	scA := g.specCtxVars(st, st, vars)
	scP := g.specCtx(g.entry, g.entry, nil)
	ma, e1 := scA.intTerm(c.Decreases.E)
	mp, e2 := scP.intTerm(c.Decreases.E)
	if e1 != nil || e2 != nil {
		g.BindErrs = append(g.BindErrs, fmt.Sprintf("decreases %q: %v %v", c.Decreases.Text, e1, e2))
		return
	}
	g.oblige(st, "decreases", "", "recursive call decreases "+c.Decreases.Text, pos, And(Le(IntLit(0), ma), Lt(ma, mp)))
}


// immutableCapture: the variable a closure captures through fv is assigned exactly once,
// in the function that declares it, and by no closure that captures it — so every load
// of the captured cell gives the value it had when the closure was entered, whatever
// runs in between (callees can only change it by assigning it through some closure).
func (g *Gen) immutableCapture(fv *ssa.FreeVar) bool {
	if g.immCap == nil {
		g.immCap = map[*ssa.FreeVar]bool{}
	}
	if r, ok := g.immCap[fv]; ok {
		return r
	}
	r := captureImmutable(g.Fn, fv, 0)
	g.immCap[fv] = r
	return r
}

// captureImmutable walks from a free variable of fn to the binding in the parent
// that creates fn, up to the allocation of the variable.
func captureImmutable(fn *ssa.Function, fv *ssa.FreeVar, depth int) bool {
	parent := fn.Parent()
	if parent == nil || depth > 6 {
		return false
	}
	idx := -1
	for i, f := range fn.FreeVars {
		if f == fv {
			idx = i
		}
	}
	if idx < 0 {
		return false
	}
	var binding ssa.Value
	for _, b := range parent.Blocks {
		for _, in := range b.Instrs {
			if mc, ok := in.(*ssa.MakeClosure); ok && mc.Fn == fn && idx < len(mc.Bindings) {
				if binding != nil && binding != mc.Bindings[idx] {
					return false
				}
				binding = mc.Bindings[idx]
			}
		}
	}
	switch b := binding.(type) {
	case *ssa.Alloc:
		return cellAssignedOnce(b, 1)
	case *ssa.FreeVar:
		// captured by the parent too: no store through the parent's own handle, and
		// the declaring function assigns it once
		if !cellAssignedOnce(b, 0) {
			return false
		}
		return captureImmutable(parent, b, depth+1)
	}
	return false
}

// cellAssignedOnce: at most maxStores stores go through v (an Alloc or a FreeVar) in
// its function, none in any closure that captures it (recursively), and the address
// is used for nothing but loads, stores, debug references and closure bindings.
func cellAssignedOnce(v ssa.Value, maxStores int) bool {
	refs := v.Referrers()
	if refs == nil {
		return false
	}
	stores := 0
	for _, r := range *refs {
		switch u := r.(type) {
		case *ssa.Store:
			if u.Addr != v {
				return false // the address itself is stored somewhere
			}
			stores++
		case *ssa.UnOp:
			if u.Op != token.MUL {
				return false
			}
		case *ssa.DebugRef:
		case *ssa.MakeClosure:
			cf, ok := u.Fn.(*ssa.Function)
			if !ok {
				return false
			}
			for i, bnd := range u.Bindings {
				if bnd == v {
					if i >= len(cf.FreeVars) || !cellAssignedOnce(cf.FreeVars[i], 0) {
						return false
					}
				}
			}
		default:
			return false
		}
	}
	return stores <= maxStores
}
