package eng

import (
	"fmt"
	"go/token"
	"go/types"
	"strings"

	"golang.org/x/tools/go/ssa"
)

func (g *Gen) calleeNames(f *ssa.Function, sig *types.Signature, c *Contract) []string {
	var names []string
	if f != nil && len(f.Params) > 0 {
		for _, p := range f.Params {
			names = append(names, p.Name())
		}
	} else {
		if r := sig.Recv(); r != nil {
			n := r.Name()
			if n == "" || n == "_" {
				n = "recv"
			}
			names = append(names, n)
		}
		for i := 0; i < sig.Params().Len(); i++ {
			n := sig.Params().At(i).Name()
			if n == "" || n == "_" {
				n = fmt.Sprintf("arg%d", i)
			}
			names = append(names, n)
		}
	}
	if c != nil && len(c.Params) > 0 {
		for i := range names {
			if i < len(c.Params) {
				names[i] = c.Params[i]
			}
		}
	}
	return names
}

func resultNamesOf(sig *types.Signature, c *Contract) []string {
	res := sig.Results()
	var names []string
	for i := 0; i < res.Len(); i++ {
		n := res.At(i).Name()
		if n == "" || n == "_" {
			if res.Len() == 1 {
				n = "result"
			} else {
				n = fmt.Sprintf("result%d", i)
			}
		}
		if c != nil && i < len(c.Results) {
			n = c.Results[i]
		}
		names = append(names, n)
	}
	return names
}

func (g *Gen) call(st *State, in ssa.CallInstruction) Val {
	cc := in.Common()
	pos := in.Pos()
	var resTy types.Type
	if v := in.Value(); v != nil {
		resTy = v.Type()
	} else {
		resTy = cc.Signature().Results()
	}
	argVals := func() []Val {
		var out []Val
		for _, a := range cc.Args {
			out = append(out, g.val(st, a))
		}
		return out
	}
	if cc.IsInvoke() {
		recv := g.val(st, cc.Value)
		g.nilCheck(st, recv, pos, "interface method call "+cc.Method.Name())
		key := ifaceMethodKey(cc.Value.Type(), cc.Method)
		// an instantiation of a generic interface may carry its own contract
		if ik := ifaceMethodKeyInst(cc.Value.Type(), cc.Method); ik != "" && g.P.Contracts[ik] != nil {
			key = ik
		}
		if fn, rv, ok := g.devirtualize(st, cc.Value.Type(), cc.Method, recv); ok {
			return g.staticCall(st, fn, append([]Val{rv}, argVals()...), resTy, pos)
		}
		c := g.P.ContractFor(key)
		args := append([]Val{recv}, argVals()...)
		sig := cc.Method.Type().(*types.Signature)
		names := []string{"recv"}
		for i := 0; i < sig.Params().Len(); i++ {
			n := sig.Params().At(i).Name()
			if n == "" || n == "_" {
				n = fmt.Sprintf("arg%d", i)
			}
			names = append(names, n)
		}
		if c != nil && len(c.Params) > 0 {
			for i := range names {
				if i < len(c.Params) {
					names[i] = c.Params[i]
				}
			}
		}
		return g.applyContract(st, c, key, names, args, sig, resTy, pos, false)
	}
	switch callee := cc.Value.(type) {
	case *ssa.Builtin:
		return g.builtin(st, callee, cc, resTy, pos)
	case *ssa.Function:
		return g.staticCall(st, callee, argVals(), resTy, pos)
	case *ssa.MakeClosure:
		fn := callee.Fn.(*ssa.Function)
		return g.closureCall(st, fn, callee, argVals(), resTy, pos)
	}
	// dynamic call through a function value
	fv := g.val(st, cc.Value)
	g.nilCheck(st, fv, pos, "call of nil func")
	cbc := g.callbackContract(cc.Value)
	if cbc == nil {
		cbc = g.resultCallback(cc.Value)
	}
	if cb := cbc; cb != nil {
		sig := cc.Signature()
		names := g.calleeNames(nil, sig, cb)
		return g.applyContract(st, cb, cb.Key, names, argVals(), sig, resTy, pos, false)
	}
	if nt, ok := cc.Value.Type().(*types.Named); ok && nt.Obj().Pkg() != nil && nt.Obj().Pkg().Path() == "context" && nt.Obj().Name() == "CancelFunc" {
		// cancelling a context touches only the context's own (external) state
		g.Assumed["trusted: calling a context.CancelFunc changes nothing the verified code reads"] = true
		return g.declare(st, "cancel", resTy)
	}
	g.Abstracted["call through function value without callback contract at "+g.pos(pos)+" (heap havocked)"] = true
	g.havocAll(st, "dynamic call")
	return g.declare(st, "dyncall", resTy)
}

func ifaceMethodKey(t types.Type, m *types.Func) string {
	if n, ok := t.(*types.Named); ok {
		pkg := ""
		if n.Obj().Pkg() != nil {
			pkg = n.Obj().Pkg().Path()
		}
		return pkg + "." + n.Obj().Name() + "." + m.Name()
	}
	if a, ok := t.(*types.Alias); ok {
		return ifaceMethodKey(types.Unalias(a), m)
	}
	if t.String() == "error" {
		return "error." + m.Name()
	}
	return "iface." + m.Name()
}

// ifaceMethodKeyInst: the key of a method of an instantiated generic interface,
// pkg.Name[arg,...].Method, the arguments written with the last element of their
// package path (as a contract file of that package would write them).
func ifaceMethodKeyInst(t types.Type, m *types.Func) string {
	if a, ok := t.(*types.Alias); ok {
		t = types.Unalias(a)
	}
	n, ok := t.(*types.Named)
	if !ok || n.TypeArgs() == nil || n.TypeArgs().Len() == 0 || n.Obj().Pkg() == nil {
		return ""
	}
	var args []string
	for i := 0; i < n.TypeArgs().Len(); i++ {
		args = append(args, types.TypeString(n.TypeArgs().At(i), func(p *types.Package) string { return p.Name() }))
	}
	return n.Obj().Pkg().Path() + "." + n.Obj().Name() + "[" + strings.Join(args, ",") + "]." + m.Name()
}

// callbackContract: the contract attached to a func-typed parameter of the
// function under verification (//@ callback <param> ...).
func (g *Gen) callbackContract(v ssa.Value) *Contract {
	if g.C == nil || g.C.Callbacks == nil {
		return nil
	}
	if p, ok := v.(*ssa.Parameter); ok {
		if c := g.C.Callbacks[p.Name()]; c != nil {
			return c
		}
	}
	// callback * ...: every other call through a function value in this function
	return g.C.Callbacks["*"]
}

// resultCallback: the contract a callee's contract attaches to a func-typed result
// (//@ callback result<i> pure), e.g. the cancel function of context.WithCancel.
func (g *Gen) resultCallback(v ssa.Value) *Contract {
	ex, ok := v.(*ssa.Extract)
	var call *ssa.Call
	idx := 0
	if ok {
		call, _ = ex.Tuple.(*ssa.Call)
		idx = ex.Index
	} else {
		call, _ = v.(*ssa.Call)
	}
	if call == nil {
		return nil
	}
	f, ok := call.Call.Value.(*ssa.Function)
	if !ok {
		return nil
	}
	key := FuncKey(f)
	if f.Origin() != nil {
		key = FuncKey(f.Origin())
	}
	c := g.P.ContractFor(key)
	if c == nil || c.Callbacks == nil {
		return nil
	}
	return c.Callbacks[fmt.Sprintf("result%d", idx)]
}

func (g *Gen) staticCall(st *State, f *ssa.Function, args []Val, resTy types.Type, pos token.Pos) Val {
	if g.C != nil && g.C.HoldsLock && !g.inDefers && !g.quiet {
		if n := f.Name(); (n == "Unlock" || n == "RUnlock") && f.Pkg != nil && f.Pkg.Pkg.Path() == "sync" {
			g.oblige(st, "holds-lock", "", "holdslock: the mutex is released only by the deferred unlock", pos, False)
		}
	}
	key := FuncKey(f)
	if f.Origin() != nil {
		key = FuncKey(f.Origin())
	}
	if r, ok := g.special(st, key, f, args, resTy, pos); ok {
		return r
	}
	c := g.P.ContractFor(key)
	names := g.calleeNames(f, f.Signature, c)
	if c != nil && c.Spec && f.Blocks != nil {
		return g.specCall(st, f, c, args, resTy, pos)
	}
	if c != nil && c.Lemma {
		if g.Fn == f && c.Decreases == nil {
			g.BindErrs = append(g.BindErrs, "recursive lemma "+ShortKey(key)+" needs a decreases clause")
		}
		g.checkDecreases(st, f, c, args, pos)
	}
	// method receivers of contracted /repo methods must be non-nil
	if c != nil && f.Signature.Recv() != nil && strings.HasPrefix(key, ModPath) {
		if _, isPtr := f.Signature.Recv().Type().Underlying().(*types.Pointer); isPtr && len(args) > 0 {
			g.nilCheck(st, args[0], pos, "receiver of "+ShortKey(key))
		}
	}
	return g.applyContract(st, c, key, names, args, f.Signature, resTy, pos, f.Blocks != nil)
}

func (g *Gen) closureCall(st *State, fn *ssa.Function, mc *ssa.MakeClosure, args []Val, resTy types.Type, pos token.Pos) Val {
	key := FuncKey(fn)
	c := g.P.ContractFor(key)
	names := g.calleeNames(fn, fn.Signature, c)
	if c != nil {
		// free variables are visible to the contract under their own names
		return g.applyContractFV(st, c, key, names, args, fn, mc, resTy, pos)
	}
	g.Abstracted["call of closure "+ShortKey(key)+" without contract (heap havocked)"] = true
	g.havocAll(st, "closure call")
	return g.declare(st, "closure", resTy)
}

func (g *Gen) applyContractFV(st *State, c *Contract, key string, names []string, args []Val, fn *ssa.Function, mc *ssa.MakeClosure, resTy types.Type, pos token.Pos) Val {
	extra := map[string]Val{}
	for i, fv := range fn.FreeVars {
		extra["&"+fv.Name()] = g.val(st, mc.Bindings[i])
	}
	return g.applyContractX(st, c, key, names, args, fn.Signature, resTy, pos, true, extra)
}

func (g *Gen) applyContract(st *State, c *Contract, key string, names []string, args []Val, sig *types.Signature, resTy types.Type, pos token.Pos, inRepo bool) Val {
	return g.applyContractX(st, c, key, names, args, sig, resTy, pos, inRepo, nil)
}

// callAsserts emits the obligations the caller's contract attaches to this call site
// (checked before the call, whether or not the callee has a contract).
func (g *Gen) callAsserts(st *State, short string, vars map[string]Val, pos token.Pos) {
	if g.C != nil && len(g.C.CallAsserts) > 0 && !g.quiet {
		ord := g.preCallOrd[short]
		g.preCallOrd[short] = ord + 1
		for _, cl := range g.C.CallAsserts {
			if cl.CallOrd != ord || !(short == cl.Callee || strings.HasSuffix(short, "."+cl.Callee) || strings.HasSuffix(short, "/"+cl.Callee) || (cl.Callee == "$dyn" && strings.Contains(short, "$callback:"))) {
				continue
			}
			sca := g.specCtxVars(st, g.entry, vars)
			sca.useParams = true
			sca.atBlock = g.curBlock
			t, err := sca.boolTerm(cl.E)
			if err != nil {
				g.BindErrs = append(g.BindErrs, fmt.Sprintf("assert %q: %v", cl.Text, err))
				continue
			}
			g.usedCallAssumes[cl] = true
			g.oblige(st, "assert", "@"+short, cl.Text, pos, t)
		}
	}
}

func (g *Gen) applyContractX(st *State, c *Contract, key string, names []string, args []Val, sig *types.Signature, resTy types.Type, pos token.Pos, inRepo bool, extra map[string]Val) Val {
	short := ShortKey(key)
	if g.wantCallSt {
		g.callStates[short] = append(g.callStates[short], st.clone())
	}
	if c == nil {
		v0 := map[string]Val{}
		for i, n := range names {
			if i < len(args) {
				v0[n] = args[i]
			}
		}
		g.callAsserts(st, short, v0, pos)
		if strings.HasPrefix(key, ModPath) {
			g.Abstracted["call to "+short+" (no contract): heap havocked, result unconstrained"] = true
		} else {
			g.Abstracted["external call "+short+" (no trusted contract): heap havocked, result unconstrained"] = true
		}
		g.havocAll(st, short)
		return g.declare(st, "ret:"+short, resTy)
	}
	if c.Trusted {
		g.Assumed["trusted contract: "+short] = true
	}
	vars := map[string]Val{}
	for i, n := range names {
		if i < len(args) {
			vars[n] = args[i]
		}
	}
	for k, v := range extra {
		vars[k] = v
	}
	// a pure call whose argument is still private gets no functional-consistency
	// claim across heap writes (its pointee may change without an epoch change)
	privateArg := false
	for _, a := range args {
		if (a.K == VScalar && a.T != nil && g.freshRefs[a.T]) || (a.K == VSlice && g.freshRefs[a.F[0].T]) {
			privateArg = true
		}
	}
	if !c.Pure || !privateArg {
		for _, a := range args {
			g.escape(a)
		}
	}
	sc := g.specCtxVars(st, st, vars)
	sc.calleeKey = key
	g.callAsserts(st, short, vars, pos)
	var ghostReq Expr // conjunction of the requires that mention ghost parameters
	ghostNames := map[string]bool{}
	for _, q := range c.Ghosts {
		ghostNames[q.Name] = true
	}
	for _, cl := range c.Requires {
		if len(ghostNames) > 0 && mentionsAny(cl.E, ghostNames) {
			if ghostReq == nil {
				ghostReq = cl.E
			} else {
				ghostReq = &EBin{Op: "&&", L: ghostReq, R: cl.E}
			}
			continue
		}
		t, err := sc.boolTerm(cl.E)
		if err != nil {
			g.BindErrs = append(g.BindErrs, fmt.Sprintf("call %s: requires %q: %v", short, cl.Text, err))
			continue
		}
		g.oblige(st, "pre", "@"+short, "requires "+cl.Text, pos, t)
	}
	if ghostReq != nil {
		// the caller must exhibit values for the ghost parameters
		ex := &EQuant{Forall: false, Vars: c.Ghosts, Body: ghostReq}
		t, err := sc.boolTerm(ex)
		if err != nil {
			g.BindErrs = append(g.BindErrs, fmt.Sprintf("call %s: ghost requires: %v", short, err))
		} else {
			g.oblige(st, "pre", "@"+short, "requires "+ExprString(ex), pos, t)
		}
	}
	// what the callee's contract assumes about the world is assumed here as well
	// (every assume is listed in evidence)
	for _, cl := range c.Assumes {
		t, err := sc.boolTerm(cl.E)
		if err != nil {
			g.BindErrs = append(g.BindErrs, fmt.Sprintf("call %s: assume %q: %v", short, cl.Text, err))
			continue
		}
		g.assumeAt(st, t)
		g.Assumed["assume "+cl.Text+" because "+cl.Why] = true
	}
	pre := st.clone()
	// components kept by a preserves fields(T) clause
	var keep func(string) bool
	if c.Preserves != nil {
		var pts []types.Type
		var prefixes []string
		for _, m := range c.Preserves.Mods {
			if call, ok := m.(*ECall); ok {
				if id, ok := call.Fun.(*EIdent); ok && id.Name == "fields" && len(call.Args) == 1 {
					tn := ExprString(call.Args[0])
					if strings.HasPrefix(tn, "map[") {
						prefixes = append(prefixes, "M:"+tn+":")
						continue
					}
					if ty, err := sc.typeByName(tn); err == nil {
						pts = append(pts, ty)
					}
				}
			}
		}
		keep = func(n string) bool {
			for _, t := range pts {
				if compOfType(n, t) {
					return true
				}
			}
			for _, p := range prefixes {
				if strings.HasPrefix(n, p) {
					return true
				}
			}
			return false
		}
	}
	switch {
	case c.Pure:
	case c.Modifies == nil || c.Modifies.Star:
		g.havocAllExcept(st, short, keep)
	default:
		// the callee may allocate: new references it stores are younger than the pre-state
		g.bumpClock(st)
		// every location of the modifies clause denotes a location of the pre-state
		frozen := st.clone()
		scPre := g.specCtxVars(frozen, frozen, vars)
		scPre.calleeKey = key
		for _, m := range c.Modifies.Mods {
			if err := g.havocLoc(st, scPre, m); err != nil {
				g.BindErrs = append(g.BindErrs, fmt.Sprintf("call %s: modifies %s: %v", short, ExprString(m), err))
			}
		}
	}
	if c.Preserves != nil {
		// listed locations keep their pre-call value whatever else the callee modifies
		for _, m := range c.Preserves.Mods {
			if call, ok := m.(*ECall); ok {
				if id, ok := call.Fun.(*EIdent); ok && id.Name == "fields" && len(call.Args) == 1 {
					if strings.HasPrefix(ExprString(call.Args[0]), "map[") {
						continue // handled by keep()
					}
					ty, err := sc.typeByName(ExprString(call.Args[0]))
					if err != nil {
						g.BindErrs = append(g.BindErrs, fmt.Sprintf("call %s: preserves %s: %v", short, ExprString(m), err))
						continue
					}
					for _, n := range g.uniOrder {
						if compOfType(n, ty) {
							st.Heap[n] = g.heapGet(pre, n, g.universe[n])
						}
					}
					continue
				}
			}
			a, ty, err := sc.addr(m)
			if err != nil {
				g.BindErrs = append(g.BindErrs, fmt.Sprintf("call %s: preserves %s: %v", short, ExprString(m), err))
				continue
			}
			g.store(st, a, ty, g.load(pre, a, ty))
		}
	}
	var res Val
	if c.Pure && !c.NonDet {
		// a pure function is a function of its arguments (and of the heap cells they
		// reach, passed as contents arrays for slices)
		var flat []*Term
		heapDep := false
		for _, a := range args {
			if a.K == VAddr {
				// address of a field / element: the function may read what it points to
				pv := g.load(pre, a.A, typeAt(a.A.RootT, a.A.Path))
				flat = append(flat, g.flattenArg(pre, pv, pv.Ty)...)
				if a.A.Root == RObj {
					flat = append(flat, a.A.Ref)
				}
				continue
			}
			if a.K == VScalar && a.Ty != nil {
				switch a.Ty.Underlying().(type) {
				case *types.Pointer, *types.Interface, *types.Map, *types.Chan, *types.Signature:
					heapDep = true
				}
			}
			if a.Ty != nil && (a.K == VStruct || a.K == VSlice) {
				// references nested in struct fields / slice elements
				et := a.Ty
				if sl, ok := et.Underlying().(*types.Slice); ok {
					et = sl.Elem()
				}
				for _, lf := range leavesOf(et) {
					if isRefType(lf.Ty) {
						heapDep = true
					}
				}
			}
			flat = append(flat, g.flattenArg(pre, a, a.Ty)...)
		}
		if c.Stable {
			g.Assumed["stable: "+short+" depends only on its arguments and on fields that are never written after initialisation"] = true
		}
		if privateArg && !c.Stable {
			flat = append(flat, g.fresh("private", SInt))
		}
		if heapDep && !c.Stable && c.Reads != nil {
			// declared read footprint: the result is a function of the arguments and of
			// the current contents of exactly these components
			for _, n := range g.readsComps(c, sc) {
				flat = append(flat, g.heapGet(pre, n, g.universe[n]))
			}
			heapDep = false
		}
		if heapDep && !c.Stable {
			// the result may depend on heap cells reachable from a reference: it is a
			// function of the arguments only between heap writes
			flat = append(flat, pre.Epoch)
		}
		// one symbol per argument shape (the shape varies with private/epoch arguments
		// and with how an argument value is represented)
		sig := ""
		for _, a := range flat {
			sig += a.S.String() + ","
		}
		shape := fmt.Sprintf("%d.%x", len(flat), fnv32(sig))
		res = buildVal(resTy, func(lf leaf) *Term { return App("vp_pure!"+short+lf.Path+"!"+shape, lf.Sort, flat...) })
		g.wfVal(st, res)
	} else {
		if c.Pure {
			// a side-effect-free call may still allocate its result
			g.bumpClock(st)
		}
		res = g.declare(st, "ret:"+short, resTy)
	}
	// remembered for known-finding witnesses: callres_<Func>_<k> is the result of the
	// k-th call to Func in this function (its first component for several results)
	if !g.quiet {
		if g.callRes == nil {
			g.callRes = map[string]Val{}
			g.callResOrd = map[string]int{}
		}
		base := short
		if i := strings.LastIndexAny(base, "./"); i >= 0 {
			base = base[i+1:]
		}
		k := g.callResOrd[base]
		g.callResOrd[base] = k + 1
		g.callRes[fmt.Sprintf("callres_%s_%d", base, k)] = res
	}
	rn := resultNamesOf(sig, c)
	if res.K == VTuple {
		for i, n := range rn {
			if i < len(res.F) {
				vars[n] = res.F[i]
			}
		}
	} else if len(rn) == 1 {
		vars[rn[0]] = res
		vars["result"] = res
	}
	sc2 := g.specCtxVars(st, pre, vars)
	sc2.calleeKey = key
	for _, cl := range c.Ensures {
		e := cl.E
		if len(ghostNames) > 0 && mentionsAny(e, ghostNames) {
			// holds for every choice of the ghost parameters that meets the requires
			// (evaluated over the pre-state)
			body := e
			if ghostReq != nil {
				body = &EBin{Op: "==>", L: &EOld{X: ghostReq}, R: e}
			}
			e = &EQuant{Forall: true, Vars: c.Ghosts, Body: body}
		}
		t, err := sc2.boolTerm(e)
		if err != nil {
			g.BindErrs = append(g.BindErrs, fmt.Sprintf("call %s: ensures %q: %v", short, cl.Text, err))
			continue
		}
		g.assumeAt(st, t)
	}
	// environmental assumptions the caller's contract attaches to this call site
	if g.C != nil && len(g.C.CallAssumes) > 0 && !g.quiet {
		ord := g.callOrd[short]
		if g.callOrd == nil {
			g.callOrd = map[string]int{}
		}
		g.callOrd[short] = ord + 1
		for _, cl := range g.C.CallAssumes {
			if cl.CallOrd != ord || !(short == cl.Callee || strings.HasSuffix(short, "."+cl.Callee) || strings.HasSuffix(short, "/"+cl.Callee)) {
				continue
			}
			// evaluated like an ensures of the callee, in the caller's package scope
			sc3 := g.specCtxVars(st, pre, vars)
			sc3.calleeKey = key
			sc3.useParams = true
			sc3.atBlock = g.curBlock
			t, err := sc3.boolTerm(cl.E)
			if err != nil {
				g.BindErrs = append(g.BindErrs, fmt.Sprintf("assume %q: %v", cl.Text, err))
				continue
			}
			g.assumeAt(st, t)
			g.Assumed["assume "+cl.Text+" because "+cl.Why] = true
			g.usedCallAssumes[cl] = true
		}
	}
	return res
}

// havocLoc gives the location denoted by a modifies entry a fresh value.
func (g *Gen) havocLoc(st *State, sc *SCtx, m Expr) error {
	if comps, ref, ok, err := sc.ghostLoc(m); ok {
		if err != nil {
			return err
		}
		for _, n := range comps {
			h := g.heapGet(st, n, g.universe[n])
			g.heapSet(st, n, g.universe[n], Store(h, ref, g.fresh("ghost", g.universe[n].Elem)))
		}
		return nil
	}
	if call, ok := m.(*ECall); ok {
		if id, ok := call.Fun.(*EIdent); ok && id.Name == "elems" && len(call.Args) == 1 {
			v, err := sc.eval(call.Args[0])
			if err != nil {
				return err
			}
			if v.K != VSlice {
				return fmt.Errorf("elems() of non-slice")
			}
			et := v.Ty.Underlying().(*types.Slice).Elem()
			g.havocElems(st, v, et)
			return nil
		}
		if id, ok := call.Fun.(*EIdent); ok && id.Name == "mapof" && len(call.Args) == 1 {
			v, err := sc.eval(call.Args[0])
			if err != nil {
				return err
			}
			return g.havocMap(st, v)
		}
		if id, ok := call.Fun.(*EIdent); ok && id.Name == "cells" && len(call.Args) == 1 {
			ty, err := sc.typeByName(ExprString(call.Args[0]))
			if err != nil {
				return err
			}
			for _, n := range append([]string{}, g.uniOrder...) {
				if n == "O:"+typeStr(ty) {
					g.heapSet(st, n, g.universe[n], g.fresh("hv:"+n, g.universe[n]))
				}
			}
			// a field whose address circulates as a pointer of this type may be
			// written through it
			for _, in := range g.iptrs {
				if typeStr(in.ElemT) == typeStr(ty) {
					if fs, ok := g.universe[in.Comp]; ok {
						fh := g.heapGet(st, in.Comp, fs)
						g.heapSet(st, in.Comp, fs, Store(fh, in.Owner, g.fresh("hv:iptr", fs.Elem)))
					}
				}
			}
			return nil
		}
		if id, ok := call.Fun.(*EIdent); ok && id.Name == "fields" && len(call.Args) == 1 && strings.HasPrefix(ExprString(call.Args[0]), "map[") {
			// fields(map[K]V): every map of that type
			tn := ExprString(call.Args[0])
			for _, n := range append([]string{}, g.uniOrder...) {
				if strings.HasPrefix(n, "M:"+tn+":") {
					g.heapSet(st, n, g.universe[n], g.fresh("hv:"+n, g.universe[n]))
				}
			}
			return nil
		}
		if id, ok := call.Fun.(*EIdent); ok && id.Name == "fields" && len(call.Args) == 1 {
			// fields(T): any field of any object of struct type T (footprint by type)
			ty, err := sc.typeByName(ExprString(call.Args[0]))
			if err != nil {
				return err
			}
			for _, n := range append([]string{}, g.uniOrder...) {
				if compOfType(n, ty) {
					g.heapSet(st, n, g.universe[n], g.fresh("hv:"+n, g.universe[n]))
				}
			}
			return nil
		}
	}
	a, ty, err := sc.addr(m)
	if err != nil {
		return err
	}
	nv := g.declare(st, "mod", ty)
	g.store(st, a, ty, nv)
	return nil
}

func (g *Gen) havocElems(st *State, s Val, et types.Type) {
	arr, off, cp := s.F[0].T, s.F[1].T, s.F[3].T
	for _, lf := range leavesOf(et) {
		a := &Addr{Root: RElem, RootT: et}
		name := g.compName(a, lf)
		cs := g.compSort(RElem, lf.Sort)
		h := g.heapGet(st, name, cs)
		old := Select(h, arr)
		nw := g.fresh("elems", ArraySort(SInt, lf.Sort))
		k := BoundVar("k", SInt)
		g.assume(ForallPat([]*Term{k}, Implies(Or(Lt(k, off), Ge(k, Add(off, cp))), Eq(Select(nw, k), Select(old, k))), Select(nw, k)))
		if _, _, ok := intRange(lf.Ty); ok {
			g.assume(ForallPat([]*Term{k}, inRange(Select(nw, k), lf.Ty), Select(nw, k)))
		}
		g.heapSet(st, name, cs, Store(h, arr, nw))
	}
}

// ---------------------------------------------------------------- return

func (g *Gen) ret(st *State, x *ssa.Return) {
	if g.quiet {
		g.retVals = append(g.retVals, retPoint{st: st.clone(), vals: g.retValues(st, x)})
		return
	}
	if g.C == nil {
		return
	}
	vars := map[string]Val{}
	vals := g.retValues(st, x)
	for i, n := range g.results {
		if i < len(vals) {
			vars[n] = vals[i]
		}
	}
	if len(vals) == 1 {
		vars["result"] = vals[0]
	}
	sc := g.specCtxVars(st, g.entry, vars)
	sc.useParams = true
	for _, cl := range g.C.Ensures {
		t, err := sc.boolTerm(cl.E)
		if err != nil {
			g.BindErrs = append(g.BindErrs, fmt.Sprintf("ensures %q: %v", cl.Text, err))
			continue
		}
		g.obligeNamed(st, "post", g.clauseOrdinal(cl), cl.Text, x.Pos(), t)
	}
	if g.C.Modifies != nil && !g.C.Modifies.Star {
		g.frameCheck(st, x.Pos())
	}
	if g.C.Preserves != nil {
		scp := g.specCtxVars(g.entry, g.entry, nil)
		scp.useParams = true
		for _, m := range g.C.Preserves.Mods {
			if call, ok := m.(*ECall); ok {
				if id, ok := call.Fun.(*EIdent); ok && id.Name == "fields" && len(call.Args) == 1 {
					if tn := ExprString(call.Args[0]); strings.HasPrefix(tn, "map[") {
						for _, n := range g.uniOrder {
							if strings.HasPrefix(n, "M:"+tn+":") && st.Heap[n] != nil && st.Heap[n] != g.entry.Heap[n] {
								goal := g.unchangedOutside(n, st.Heap[n], g.heapGet(g.entry, n, g.universe[n]), g.entry.Clk, nil, true)
								g.obligeNamed(st, "preserves", g.frameOrd(n), "preserves: "+n+" unchanged", x.Pos(), goal)
							}
						}
						continue
					}
					ty, err := scp.typeByName(ExprString(call.Args[0]))
					if err != nil {
						g.BindErrs = append(g.BindErrs, fmt.Sprintf("preserves %s: %v", ExprString(m), err))
						continue
					}
					for _, n := range g.uniOrder {
						if compOfType(n, ty) && st.Heap[n] != nil && st.Heap[n] != g.entry.Heap[n] {
							goal := g.unchangedOutside(n, st.Heap[n], g.heapGet(g.entry, n, g.universe[n]), g.entry.Clk, nil, true)
							g.obligeNamed(st, "preserves", g.frameOrd(n), "preserves: "+n+" unchanged", x.Pos(), goal)
						}
					}
					continue
				}
			}
			a, ty, err := scp.addr(m)
			if err != nil {
				g.BindErrs = append(g.BindErrs, fmt.Sprintf("preserves %s: %v", ExprString(m), err))
				continue
			}
			eq := valEq(g.load(st, a, ty), g.load(g.entry, a, ty))
			if eq != nil {
				g.obligeNamed(st, "preserves", g.frameOrd("p:"+ExprString(m)), "preserves: "+ExprString(m)+" unchanged", x.Pos(), eq)
			}
		}
	}
}

func (g *Gen) retValues(st *State, x *ssa.Return) []Val {
	var vals []Val
	for _, r := range x.Results {
		v := g.val(st, r)
		if v.K == VAddr {
			v = g.firstClass(v, "returned pointer")
		}
		vals = append(vals, v)
	}
	return vals
}

func (g *Gen) clauseOrdinal(cl *Clause) int {
	for i, c := range g.C.Ensures {
		if c == cl {
			return i
		}
	}
	return -1
}

// obligeNamed: post.<clause ordinal>[.<return ordinal>]
func (g *Gen) obligeNamed(st *State, kind string, ord int, clause string, pos token.Pos, goal *Term) {
	ck := fmt.Sprintf("%s.%d", kind, ord)
	n := g.counters[ck]
	g.counters[ck] = n + 1
	name := fmt.Sprintf("%s#%s.%d@ret%d", ShortKey(g.Key), kind, ord, n)
	parts := splitGoal(goal)
	for j, p := range parts {
		nm := name
		if len(parts) > 1 {
			nm = fmt.Sprintf("%s/%d", name, j)
		}
		o := &Obligation{Name: nm, Kind: kind, Fn: g.Key, Clause: clause, Pos: g.pos(pos), NDefs: len(g.Defs), Reach: st.Reach, Goal: p, Gen: g, Block: g.effBlock()}
		g.Obls = append(g.Obls, o)
	}
}

type allowedLoc struct {
	ref *Term // object ref (O:) or array ref (E:)
	lo  *Term
	hi  *Term
	any bool // every location of the component
	sinceEntry bool // everything allocated since function entry (modifies fresh)
	sinceLoop  bool // everything allocated since the loop was entered (loop modifies new)
}

// compOfType: the component holds a field (or element field) of struct type t.
func compOfType(comp string, t types.Type) bool {
	ts := typeStr(t)
	for _, pre := range []string{"O:" + ts, "E:" + ts} {
		if comp == pre || strings.HasPrefix(comp, pre+".") || strings.HasPrefix(comp, pre+"#") {
			return true
		}
	}
	return false
}

// allowSets evaluates the entries of a modifies clause (in the given context)
// into the locations that may change, per heap component.
func (g *Gen) allowSets(mods []Expr, sc *SCtx, what string) map[string][]allowedLoc {
	allow := map[string][]allowedLoc{}
	for _, m := range mods {
		if comps, ref, ok, err := sc.ghostLoc(m); ok {
			if err != nil {
				g.BindErrs = append(g.BindErrs, fmt.Sprintf("%s %s: %v", what, ExprString(m), err))
				continue
			}
			for _, n := range comps {
				allow[n] = append(allow[n], allowedLoc{ref: ref})
			}
			continue
		}
		if id, ok := m.(*EIdent); ok && id.Name == "new" {
			// objects allocated since the loop was entered
			for _, n := range g.uniOrder {
				allow[n] = append(allow[n], allowedLoc{sinceLoop: true})
			}
			continue
		}
		if id, ok := m.(*EIdent); ok && id.Name == "fresh" {
			// objects allocated since function entry
			for _, n := range g.uniOrder {
				allow[n] = append(allow[n], allowedLoc{sinceEntry: true})
			}
			continue
		}
		if call, ok := m.(*ECall); ok {
			if id, ok := call.Fun.(*EIdent); ok && id.Name == "elems" && len(call.Args) == 1 {
				v, err := sc.eval(call.Args[0])
				if err != nil || v.K != VSlice {
					g.BindErrs = append(g.BindErrs, fmt.Sprintf("%s %s: %v", what, ExprString(m), err))
					continue
				}
				et := v.Ty.Underlying().(*types.Slice).Elem()
				for _, lf := range leavesOf(et) {
					name := g.compName(&Addr{Root: RElem, RootT: et}, lf)
					allow[name] = append(allow[name], allowedLoc{ref: v.F[0].T, lo: v.F[1].T, hi: Add(v.F[1].T, v.F[3].T)})
				}
				continue
			}
			if id, ok := call.Fun.(*EIdent); ok && id.Name == "cells" && len(call.Args) == 1 {
				ty, err := sc.typeByName(ExprString(call.Args[0]))
				if err != nil {
					g.BindErrs = append(g.BindErrs, fmt.Sprintf("%s %s: %v", what, ExprString(m), err))
					continue
				}
				for _, n := range g.uniOrder {
					if n == "O:"+typeStr(ty) {
						allow[n] = append(allow[n], allowedLoc{any: true})
					}
				}
				continue
			}
			if id, ok := call.Fun.(*EIdent); ok && id.Name == "fields" && len(call.Args) == 1 && strings.HasPrefix(ExprString(call.Args[0]), "map[") {
				tn := ExprString(call.Args[0])
				for _, n := range g.uniOrder {
					if strings.HasPrefix(n, "M:"+tn+":") {
						allow[n] = append(allow[n], allowedLoc{any: true})
					}
				}
				continue
			}
			if id, ok := call.Fun.(*EIdent); ok && id.Name == "fields" && len(call.Args) == 1 {
				ty, err := sc.typeByName(ExprString(call.Args[0]))
				if err != nil {
					g.BindErrs = append(g.BindErrs, fmt.Sprintf("%s %s: %v", what, ExprString(m), err))
					continue
				}
				for _, n := range g.uniOrder {
					if compOfType(n, ty) {
						allow[n] = append(allow[n], allowedLoc{any: true})
					}
				}
				continue
			}
			if id, ok := call.Fun.(*EIdent); ok && id.Name == "mapof" && len(call.Args) == 1 {
				v, err := sc.eval(call.Args[0])
				if err != nil || v.K != VScalar || v.Ty == nil {
					g.BindErrs = append(g.BindErrs, fmt.Sprintf("%s %s: %v", what, ExprString(m), err))
					continue
				}
				if _, isMap := v.Ty.Underlying().(*types.Map); !isMap {
					g.BindErrs = append(g.BindErrs, fmt.Sprintf("%s %s: not a map", what, ExprString(m)))
					continue
				}
				mi := g.mapInfo(v.Ty)
				for _, n := range g.uniOrder {
					if strings.HasPrefix(n, mi.name+":") {
						allow[n] = append(allow[n], allowedLoc{ref: v.T})
					}
				}
				continue
			}
		}
		a, ty, err := sc.addr(m)
		if err != nil {
			g.BindErrs = append(g.BindErrs, fmt.Sprintf("%s %s: %v", what, ExprString(m), err))
			continue
		}
		if a.Root == RLocal {
			continue
		}
		for _, lf := range leavesOf(ty) {
			name := g.compName(a, lf)
			switch a.Root {
			case RObj:
				allow[name] = append(allow[name], allowedLoc{ref: a.Ref})
			case RElem:
				allow[name] = append(allow[name], allowedLoc{ref: a.Ref, lo: a.Idx, hi: Add(a.Idx, IntLit(1))})
			case RGlobal:
				allow[name] = append(allow[name], allowedLoc{})
			}
		}
	}
	return allow
}

// unchangedOutside states that component n is the same in cur and base at every
// location that existed at base time (ref <= clk) and is not allowed to change.
// With skolem=true fresh constants stand for the location (a goal); otherwise the
// statement is universally quantified (an assumption).
func (g *Gen) unchangedOutside(n string, cur, base *Term, clk *Term, allow []allowedLoc, skolem bool) *Term {
	var rest []allowedLoc
	for _, a := range allow {
		if a.any {
			return True
		}
		if a.sinceEntry {
			// only locations that existed at function entry are constrained
			clk = g.entry.Clk
			continue
		}
		if a.sinceLoop {
			if g.loopPreClk != nil {
				clk = g.loopPreClk
			}
			continue
		}
		rest = append(rest, a)
	}
	allow = rest
	mkv := func(hint string) *Term {
		if skolem {
			return g.fresh(hint, SInt)
		}
		g.nbound++
		return BoundVar(fmt.Sprintf("%s!%d", hint, g.nbound), SInt)
	}
	switch n[0] {
	case 'O', 'M':
		r := mkv("frame.r")
		var ok []*Term
		for _, a := range allow {
			ok = append(ok, Eq(r, a.ref))
		}
		body := Implies(And(Lt(IntLit(0), r), Le(r, clk), Not(Or(ok...))), Eq(Select(cur, r), Select(base, r)))
		if skolem {
			return body
		}
		return ForallPat([]*Term{r}, body, Select(cur, r))
	case 'E':
		r := mkv("frame.r")
		i := mkv("frame.i")
		var ok []*Term
		for _, a := range allow {
			ok = append(ok, And(Eq(r, a.ref), Le(a.lo, i), Lt(i, a.hi)))
		}
		body := Implies(And(Lt(IntLit(0), r), Le(r, clk), Not(Or(ok...))), Eq(Select(Select(cur, r), i), Select(Select(base, r), i)))
		if skolem {
			return body
		}
		return ForallPat([]*Term{r, i}, body, Select(Select(cur, r), i))
	case 'G':
		if len(allow) == 0 {
			return Eq(cur, base)
		}
	}
	return True
}

func (g *Gen) frameCheck(st *State, pos token.Pos) {
	written := map[string]bool{}
	star := false
	for _, m := range g.writes {
		for n := range m {
			written[n] = true
		}
	}
	for _, s := range g.starW {
		if s {
			star = true
		}
	}
	sc := g.specCtxVars(g.entry, g.entry, nil)
	sc.useParams = true
	allow := g.allowSets(g.C.Modifies.Mods, sc, "modifies")
	for _, n := range g.uniOrder {
		if !(star || written[n]) || strings.HasPrefix(n, "I:") {
			continue
		}
		cur := st.Heap[n]
		h0 := g.entry.Heap[n]
		if cur == nil || h0 == nil || cur == h0 {
			continue
		}
		goal := g.unchangedOutside(n, cur, h0, g.entry.Clk, allow[n], true)
		if goal.IsTrue() {
			continue
		}
		g.obligeNamed(st, "frame", g.frameOrd(n), "frame: "+n+" unchanged outside modifies", pos, goal)
	}
}

func (g *Gen) frameOrd(comp string) int {
	if g.frameIdx == nil {
		g.frameIdx = map[string]int{}
	}
	if i, ok := g.frameIdx[comp]; ok {
		return i
	}
	i := len(g.frameIdx)
	g.frameIdx[comp] = i
	return i
}

// ---------------------------------------------------------------- builtins

func (g *Gen) lenOf(st *State, v Val, ty types.Type) *Term {
	switch ty.Underlying().(type) {
	case *types.Slice:
		if v.K == VSlice {
			return v.F[2].T
		}
	case *types.Basic:
		if v.K == VScalar {
			g.strlenNonNeg(v.T)
			return App("vp_strlen", SInt, v.T)
		}
	case *types.Map:
		if v.K == VScalar {
			return g.mapSize(st, v, ty)
		}
	case *types.Pointer:
		if at, ok := ty.Underlying().(*types.Pointer).Elem().Underlying().(*types.Array); ok {
			return IntLit(at.Len())
		}
	case *types.Array:
		return IntLit(ty.Underlying().(*types.Array).Len())
	case *types.Chan:
		r := g.fresh("chanlen", SInt)
		g.assume(Le(IntLit(0), r))
		return r
	}
	return nil
}

func (g *Gen) builtin(st *State, b *ssa.Builtin, cc *ssa.CallCommon, resTy types.Type, pos token.Pos) Val {
	args := make([]Val, len(cc.Args))
	for i, a := range cc.Args {
		args[i] = g.val(st, a)
	}
	switch b.Name() {
	case "len":
		if t := g.lenOf(st, args[0], cc.Args[0].Type()); t != nil {
			return scalar(t, types.Typ[types.Int])
		}
	case "cap":
		if args[0].K == VSlice {
			return scalar(args[0].F[3].T, types.Typ[types.Int])
		}
	case "append":
		return g.appendBuiltin(st, args, cc, pos)
	case "copy":
		return g.copyBuiltin(st, args, cc, pos)
	case "delete":
		g.mapDelete(st, args[0], cc.Args[0].Type(), args[1])
		return Val{K: VTuple}
	case "min", "max":
		if len(args) >= 1 && args[0].K == VScalar && args[0].T.S == SInt && !isFloatType(cc.Args[0].Type()) {
			r := args[0].T
			for _, a := range args[1:] {
				if b.Name() == "min" {
					r = Ite(Lt(a.T, r), a.T, r)
				} else {
					r = Ite(Gt(a.T, r), a.T, r)
				}
			}
			return scalar(r, cc.Args[0].Type())
		}
	case "close":
		if g.C != nil && g.C.ChanState && len(args) == 1 && args[0].K == VScalar && args[0].T != nil {
			g.callAsserts(st, "close", map[string]Val{"ch": args[0]}, pos)
			n := "O:ghost.closed"
			h := g.heapGet(st, n, ArraySort(SInt, SInt))
			g.oblige(st, "chan-close", "", "close of a channel that is already closed (ghost closed)", pos, Eq(Select(h, args[0].T), IntLit(0)))
			g.heapSet(st, n, ArraySort(SInt, SInt), Store(g.heapGet(st, n, ArraySort(SInt, SInt)), args[0].T, IntLit(1)))
			return Val{K: VTuple}
		}
		g.Abstracted["close(chan): closed-channel state is not tracked"] = true
		return Val{K: VTuple}
	case "print", "println":
		return Val{K: VTuple}
	case "recover":
		g.unsupported("recover()")
	case "ssa:wrapnilchk":
		return args[0]
	case "clear":
		g.unsupported("clear()")
		g.havocAll(st, "clear")
		return Val{K: VTuple}
	}
	g.unsupported("builtin %s on %s", b.Name(), typeStr(cc.Args[0].Type()))
	return g.declare(st, b.Name(), resTy)
}

func (g *Gen) sliceOrStringContent(st *State, v Val, ty types.Type, lf leaf, et types.Type) (content, off, ln *Term, ok bool) {
	if v.K == VSlice {
		name := g.compName(&Addr{Root: RElem, RootT: et}, lf)
		h := g.heapGet(st, name, g.compSort(RElem, lf.Sort))
		return Select(h, v.F[0].T), v.F[1].T, v.F[2].T, true
	}
	if v.K == VScalar && isStringType(ty) {
		g.strlenNonNeg(v.T)
		return App("vp_strbytes", ArraySort(SInt, SInt), v.T), IntLit(0), App("vp_strlen", SInt, v.T), true
	}
	return nil, nil, nil, false
}

func (g *Gen) appendBuiltin(st *State, args []Val, cc *ssa.CallCommon, pos token.Pos) Val {
	sTy := cc.Args[0].Type()
	et := sTy.Underlying().(*types.Slice).Elem()
	s, t := args[0], args[1]
	if s.K != VSlice {
		g.unsupported("append to unmodelled slice")
		return g.declare(st, "append", sTy)
	}
	var tLen *Term
	if t.K == VSlice {
		tLen = t.F[2].T
	} else if t.K == VScalar && isStringType(cc.Args[1].Type()) {
		tLen = App("vp_strlen", SInt, t.T)
		g.strlenNonNeg(t.T)
	} else {
		g.unsupported("append of unmodelled value")
		return g.declare(st, "append", sTy)
	}
	arrS, offS, lenS, capS := s.F[0].T, s.F[1].T, s.F[2].T, s.F[3].T
	inplace := g.fresh("append.inplace", SBool)
	newLen := Add(lenS, tLen)
	g.assume(Eq(inplace, And(Le(newLen, capS), Ne(arrS, IntLit(0)))))
	fr := g.allocRef(st, "append")
	newCap := g.fresh("append.cap", SInt)
	g.assume(And(Le(newLen, newCap), Le(newCap, IntLit(1<<62))))
	rArr := Ite(inplace, arrS, fr)
	rOff := Ite(inplace, offS, IntLit(0))
	rCap := Ite(inplace, capS, newCap)
	// nil result when appending nothing to a nil slice
	isNilRes := And(Eq(arrS, IntLit(0)), Eq(tLen, IntLit(0)))
	rArr = Ite(isNilRes, IntLit(0), rArr)
	rCap = Ite(isNilRes, IntLit(0), rCap)
	for _, lf := range leavesOf(et) {
		name := g.compName(&Addr{Root: RElem, RootT: et}, lf)
		cs := g.compSort(RElem, lf.Sort)
		h := g.heapGet(st, name, cs)
		oldS := Select(h, arrS)
		nw := g.fresh("append.arr", ArraySort(SInt, lf.Sort))
		k := BoundVar("k", SInt)
		// copied prefix
		g.assume(ForallPat([]*Term{k}, Implies(And(Le(rOff, k), Lt(k, Add(rOff, lenS))), Eq(Select(nw, k), Select(oldS, Add(Sub(k, rOff), offS)))), Select(nw, k)))
		// appended part
		tc, tOff, _, ok := g.sliceOrStringContent(st, t, cc.Args[1].Type(), lf, et)
		if ok {
			if tLen.Op == "int" && tLen.IV.IsInt64() && tLen.IV.Int64() <= 4 {
				for j := int64(0); j < tLen.IV.Int64(); j++ {
					g.assume(Eq(Select(nw, Add(Add(rOff, lenS), IntLit(j))), Select(tc, Add(tOff, IntLit(j)))))
				}
			} else {
				base := Add(rOff, lenS)
				g.assume(ForallPat([]*Term{k}, Implies(And(Le(base, k), Lt(k, Add(base, tLen))), Eq(Select(nw, k), Select(tc, Add(Sub(k, base), tOff)))), Select(nw, k)))
			}
		}
		// in place: the other cells of the shared backing array are unchanged
		g.assume(Implies(inplace, ForallPat([]*Term{k}, Implies(Or(Lt(k, Add(offS, lenS)), Ge(k, Add(offS, newLen))), Eq(Select(nw, k), Select(oldS, k))), Select(nw, k))))
		if _, _, isInt := intRange(lf.Ty); isInt {
			g.assume(ForallPat([]*Term{k}, inRange(Select(nw, k), lf.Ty), Select(nw, k)))
		}
		g.heapSet(st, name, cs, Ite(isNilRes, h, Store(h, rArr, nw)))
	}
	return Val{K: VSlice, Ty: sTy, F: []Val{scalar(rArr, nil), scalar(rOff, nil), scalar(newLen, nil), scalar(rCap, nil)}}
}

func (g *Gen) copyBuiltin(st *State, args []Val, cc *ssa.CallCommon, pos token.Pos) Val {
	dTy := cc.Args[0].Type()
	et := dTy.Underlying().(*types.Slice).Elem()
	d, s := args[0], args[1]
	if d.K != VSlice {
		g.unsupported("copy to unmodelled slice")
		g.havocAll(st, "copy")
		return g.declare(st, "copy", types.Typ[types.Int])
	}
	var sLen *Term
	if s.K == VSlice {
		sLen = s.F[2].T
	} else if s.K == VScalar && isStringType(cc.Args[1].Type()) {
		sLen = App("vp_strlen", SInt, s.T)
		g.strlenNonNeg(s.T)
	} else {
		g.havocElems(st, d, et)
		return g.declare(st, "copy", types.Typ[types.Int])
	}
	n := Ite(Lt(sLen, d.F[2].T), sLen, d.F[2].T)
	nC := g.fresh("copy.n", SInt)
	g.assume(Eq(nC, n))
	for _, lf := range leavesOf(et) {
		name := g.compName(&Addr{Root: RElem, RootT: et}, lf)
		cs := g.compSort(RElem, lf.Sort)
		h := g.heapGet(st, name, cs)
		oldD := Select(h, d.F[0].T)
		nw := g.fresh("copy.arr", ArraySort(SInt, lf.Sort))
		k := BoundVar("k", SInt)
		sc, sOff, _, ok := g.sliceOrStringContent(st, s, cc.Args[1].Type(), lf, et)
		dOff := d.F[1].T
		if ok {
			g.assume(ForallPat([]*Term{k}, Implies(And(Le(dOff, k), Lt(k, Add(dOff, nC))), Eq(Select(nw, k), Select(sc, Add(Sub(k, dOff), sOff)))), Select(nw, k)))
		}
		g.assume(ForallPat([]*Term{k}, Implies(Or(Lt(k, dOff), Ge(k, Add(dOff, nC))), Eq(Select(nw, k), Select(oldD, k))), Select(nw, k)))
		if _, _, isInt := intRange(lf.Ty); isInt {
			g.assume(ForallPat([]*Term{k}, inRange(Select(nw, k), lf.Ty), Select(nw, k)))
		}
		g.heapSet(st, name, cs, Store(h, d.F[0].T, nw))
	}
	return scalar(nC, types.Typ[types.Int])
}

// devirtualize resolves an interface method call to the single implementation
// declared by an `impl` directive (closed world, checked at load time).
func (g *Gen) devirtualize(st *State, it types.Type, m *types.Func, recv Val) (*ssa.Function, Val, bool) {
	n, ok := it.(*types.Named)
	if !ok || n.Obj().Pkg() == nil {
		return nil, Val{}, false
	}
	key := n.Obj().Pkg().Path() + "." + n.Obj().Name()
	t, ok := g.P.ImplType[key]
	if !ok {
		return nil, Val{}, false
	}
	fn := g.P.Prog.LookupMethod(t, m.Pkg(), m.Name())
	if fn == nil {
		return nil, Val{}, false
	}
	// a contract written on the interface method stays in force when the concrete
	// method has none of its own (otherwise the call would havoc everything)
	ck := FuncKey(fn)
	if fn.Origin() != nil {
		ck = FuncKey(fn.Origin())
	}
	if g.P.ContractFor(ck) == nil && g.P.ContractFor(ifaceMethodKey(it, m)) != nil {
		return nil, Val{}, false
	}
	g.Assumed["closed world: interface "+ShortKey(key)+" is implemented only by "+typeStr(t)+" (every MakeInterface site in non-test code checked)"] = true
	if recv.K == VScalar && recv.T != nil {
		g.assume(Implies(Ne(recv.T, IntLit(0)), Eq(App("vp_dyntype", SInt, recv.T), typeID(t))))
	}
	rv := recv
	rv.Ty = t
	return fn, rv, true
}

// splitGoal splits A ⇒ (B1 ∧ B2 ...) and B1 ∧ B2 ... into separate goals.
func splitGoal(t *Term) []*Term {
	switch t.Op {
	case "and":
		var out []*Term
		for _, a := range t.Args {
			out = append(out, splitGoal(a)...)
		}
		return out
	case "=>":
		rs := splitGoal(t.Args[1])
		if len(rs) == 1 {
			return []*Term{t}
		}
		var out []*Term
		for _, r := range rs {
			out = append(out, Implies(t.Args[0], r))
		}
		return out
	}
	return []*Term{t}
}

// readsComps lists the heap components named by a reads clause (fields(T) entries).
func (g *Gen) readsComps(c *Contract, sc *SCtx) []string {
	var out []string
	if c.Reads == nil {
		return nil
	}
	for _, m := range c.Reads.Mods {
		call, ok := m.(*ECall)
		if !ok {
			continue
		}
		id, ok := call.Fun.(*EIdent)
		if !ok || id.Name != "fields" || len(call.Args) != 1 {
			continue
		}
		tn := ExprString(call.Args[0])
		if tn == "string" || tn == "int64" || tn == "int" {
			for _, n := range g.uniOrder {
				if n == "O:"+tn {
					out = append(out, n)
				}
			}
			continue
		}
		ty, err := sc.typeByName(tn)
		if err != nil {
			g.BindErrs = append(g.BindErrs, fmt.Sprintf("reads %s: %v", tn, err))
			continue
		}
		for _, n := range g.uniOrder {
			if compOfType(n, ty) {
				out = append(out, n)
			}
		}
	}
	return out
}

func fnv32(s string) uint32 {
	h := uint32(2166136261)
	for i := 0; i < len(s); i++ {
		h ^= uint32(s[i])
		h *= 16777619
	}
	return h
}
