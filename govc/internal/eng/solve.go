package eng

import (
	"bytes"
	"context"
	"fmt"
	"os"
	"os/exec"
	"path/filepath"
	"strings"
	"sync/atomic"
	"time"
)

type SolveResult struct {
	Status string // unsat | sat | unknown | timeout | error
	Solver string
	Ms     int64
	Output string // full solver output (model or reason)
	// Per-solver statuses when several were raced.
	All map[string]string
	// Stage names the step of the decision procedure that produced the result
	// (set by decideSplit; empty elsewhere).
	Stage string
}

type SolverCfg struct {
	ScratchDir string
	TimeoutS   int // per obligation, full race
	FirstS     int // first-stage timeout for z3-new alone
	Seed       int
	CrossCheck bool // run all solvers to completion and compare
}

var queryCounter int64

func solverCmd(name, file string, timeoutS, seed int) *exec.Cmd {
	switch name {
	case "z3-new":
		return exec.Command("z3-new", fmt.Sprintf("-T:%d", timeoutS), fmt.Sprintf("smt.random_seed=%d", seed), file)
	case "z3":
		return exec.Command("z3", fmt.Sprintf("-T:%d", timeoutS), fmt.Sprintf("smt.random_seed=%d", seed), file)
	case "cvc5":
		return exec.Command("cvc5", fmt.Sprintf("--tlimit=%d", timeoutS*1000), fmt.Sprintf("--seed=%d", seed), "--produce-models", file)
	}
	panic("unknown solver " + name)
}

func runOne(ctx context.Context, name, file string, timeoutS, seed int) (string, string) {
	cmd := solverCmd(name, file, timeoutS, seed)
	var out bytes.Buffer
	cmd.Stdout = &out
	cmd.Stderr = &out
	if err := cmd.Start(); err != nil {
		return "error", err.Error()
	}
	done := make(chan struct{})
	go func() {
		select {
		case <-ctx.Done():
			_ = cmd.Process.Kill()
		case <-done:
		}
	}()
	_ = cmd.Wait()
	close(done)
	s := out.String()
	first := strings.TrimSpace(strings.SplitN(s, "\n", 2)[0])
	switch first {
	case "unsat", "sat", "unknown":
		return first, s
	case "timeout":
		return "timeout", s
	}
	if ctx.Err() != nil {
		return "killed", s
	}
	if strings.Contains(s, "timeout") || strings.Contains(s, "interrupted by timeout") || strings.Contains(s, "resourceout") {
		return "timeout", s
	}
	return "error", s
}

// Solve decides satisfiability of the script. Stage 1: z3-new alone with a short
// limit; stage 2: race z3-new, z3 4.8 and cvc5 with the full limit.
func Solve(cfg *SolverCfg, script string, tag string) *SolveResult {
	n := atomic.AddInt64(&queryCounter, 1)
	file := filepath.Join(cfg.ScratchDir, fmt.Sprintf("q%06d.smt2", n))
	if err := os.WriteFile(file, []byte(script), 0o644); err != nil {
		return &SolveResult{Status: "error", Output: err.Error()}
	}
	defer os.Remove(file)
	start := time.Now()
	res := &SolveResult{All: map[string]string{}}
	if !cfg.CrossCheck {
		st, out := runOne(context.Background(), "z3-new", file, cfg.FirstS, cfg.Seed)
		res.All["z3-new"] = st
		if st == "unsat" || st == "sat" {
			res.Status, res.Solver, res.Output = st, "z3-new", out
			res.Ms = time.Since(start).Milliseconds()
			return res
		}
	}
	// The race: every solver, and outside cross-checking the two z3 versions under
	// further seeds as well. Queries that reach this stage still contain quantifiers,
	// and whether z3's instantiation finds the proof within the limit depends on the
	// seed; "unsat" under any seed is a proof.
	type r struct{ name, st, out string }
	type job struct {
		solver, label string
		seed          int
	}
	jobs := []job{{"z3-new", "z3-new", cfg.Seed}, {"cvc5", "cvc5", cfg.Seed}, {"z3", "z3", cfg.Seed}}
	if !cfg.CrossCheck {
		for k := 1; k <= 3; k++ {
			jobs = append(jobs, job{"z3-new", fmt.Sprintf("z3-new/seed+%d", k), cfg.Seed + k})
		}
		jobs = append(jobs, job{"z3", "z3/seed+1", cfg.Seed + 1})
	}
	solvers := jobs
	ch := make(chan r, len(solvers))
	ctx, cancel := context.WithCancel(context.Background())
	defer cancel()
	for _, j := range jobs {
		go func(j job) {
			st, out := runOne(ctx, j.solver, file, cfg.TimeoutS, j.seed)
			ch <- r{j.label, st, out}
		}(j)
	}
	var decided *r
	for i := 0; i < len(solvers); i++ {
		x := <-ch
		res.All[x.name] = x.st
		if x.st == "unsat" || x.st == "sat" {
			if decided == nil {
				xx := x
				decided = &xx
				res.Ms = time.Since(start).Milliseconds()
				if !cfg.CrossCheck {
					cancel()
				}
			} else if decided.st != x.st {
				res.Status = "disagree"
				res.Output = fmt.Sprintf("%s says %s, %s says %s", decided.name, decided.st, x.name, x.st)
				return res
			}
		}
	}
	if decided != nil {
		res.Status, res.Solver, res.Output = decided.st, strings.SplitN(decided.name, "/", 2)[0], decided.out
		return res
	}
	res.Ms = time.Since(start).Milliseconds()
	res.Status = "timeout"
	allErr := true
	for _, v := range res.All {
		if v != "error" {
			allErr = false
		}
	}
	if allErr {
		res.Status = "error"
	}
	var sb strings.Builder
	for k, v := range res.All {
		fmt.Fprintf(&sb, "%s: %s\n", k, v)
	}
	res.Output = sb.String()
	for _, v := range res.All {
		if v == "unknown" {
			res.Status = "unknown"
		}
	}
	return res
}

// SolveFirstOnly runs z3-new alone with the first-stage limit.
func SolveFirstOnly(cfg *SolverCfg, script string) *SolveResult {
	n := atomic.AddInt64(&queryCounter, 1)
	file := filepath.Join(cfg.ScratchDir, fmt.Sprintf("s%06d.smt2", n))
	if err := os.WriteFile(file, []byte(script), 0o644); err != nil {
		return &SolveResult{Status: "error", Output: err.Error()}
	}
	defer os.Remove(file)
	start := time.Now()
	st, out := runOne(context.Background(), "z3-new", file, cfg.FirstS, cfg.Seed)
	return &SolveResult{Status: st, Solver: "z3-new", Output: out, Ms: time.Since(start).Milliseconds(), All: map[string]string{"z3-new": st}}
}
