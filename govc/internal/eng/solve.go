package eng

import (
	"bytes"
	"context"
	"fmt"
	"os"
	"os/exec"
	"path/filepath"
	"strings"
	"sync/atomic"
	"time"
)

type SolveResult struct {
	Status string // unsat | sat | unknown | timeout | error
	Solver string
	Ms     int64
	Output string // full solver output (model or reason)
	// Per-solver statuses when several were raced.
	All map[string]string
}

type SolverCfg struct {
	ScratchDir string
	TimeoutS   int // per obligation, full race
	FirstS     int // first-stage timeout for z3-new alone
	Seed       int
	CrossCheck bool // run all solvers to completion and compare
}

var queryCounter int64

func solverCmd(name, file string, timeoutS, seed int) *exec.Cmd {
	switch name {
	case "z3-new":
		return exec.Command("z3-new", fmt.Sprintf("-T:%d", timeoutS), fmt.Sprintf("smt.random_seed=%d", seed), file)
	case "z3":
		return exec.Command("z3", fmt.Sprintf("-T:%d", timeoutS), fmt.Sprintf("smt.random_seed=%d", seed), file)
	case "cvc5":
		return exec.Command("cvc5", fmt.Sprintf("--tlimit=%d", timeoutS*1000), fmt.Sprintf("--seed=%d", seed), "--produce-models", file)
	}
	panic("unknown solver " + name)
}

func runOne(ctx context.Context, name, file string, timeoutS, seed int) (string, string) {
	cmd := solverCmd(name, file, timeoutS, seed)
	var out bytes.Buffer
	cmd.Stdout = &out
	cmd.Stderr = &out
	if err := cmd.Start(); err != nil {
		return "error", err.Error()
	}
	done := make(chan struct{})
	go func() {
		select {
		case <-ctx.Done():
			_ = cmd.Process.Kill()
		case <-done:
		}
	}()
	_ = cmd.Wait()
	close(done)
	s := out.String()
	first := strings.TrimSpace(strings.SplitN(s, "\n", 2)[0])
	switch first {
	case "unsat", "sat", "unknown":
		return first, s
	case "timeout":
		return "timeout", s
	}
	if ctx.Err() != nil {
		return "killed", s
	}
	if strings.Contains(s, "timeout") || strings.Contains(s, "interrupted by timeout") || strings.Contains(s, "resourceout") {
		return "timeout", s
	}
	return "error", s
}

// Solve decides satisfiability of the script. Stage 1: z3-new alone with a short
// limit; stage 2: race z3-new, z3 4.8 and cvc5 with the full limit.
func Solve(cfg *SolverCfg, script string, tag string) *SolveResult {
	n := atomic.AddInt64(&queryCounter, 1)
	file := filepath.Join(cfg.ScratchDir, fmt.Sprintf("q%06d.smt2", n))
	if err := os.WriteFile(file, []byte(script), 0o644); err != nil {
		return &SolveResult{Status: "error", Output: err.Error()}
	}
	defer os.Remove(file)
	start := time.Now()
	res := &SolveResult{All: map[string]string{}}
	if !cfg.CrossCheck {
		st, out := runOne(context.Background(), "z3-new", file, cfg.FirstS, cfg.Seed)
		res.All["z3-new"] = st
		if st == "unsat" || st == "sat" {
			res.Status, res.Solver, res.Output = st, "z3-new", out
			res.Ms = time.Since(start).Milliseconds()
			return res
		}
	}
	type r struct{ name, st, out string }
	solvers := []string{"z3-new", "cvc5", "z3"}
	ch := make(chan r, len(solvers))
	ctx, cancel := context.WithCancel(context.Background())
	defer cancel()
	for _, s := range solvers {
		go func(s string) {
			st, out := runOne(ctx, s, file, cfg.TimeoutS, cfg.Seed)
			ch <- r{s, st, out}
		}(s)
	}
	var decided *r
	for i := 0; i < len(solvers); i++ {
		x := <-ch
		res.All[x.name] = x.st
		if x.st == "unsat" || x.st == "sat" {
			if decided == nil {
				xx := x
				decided = &xx
				res.Ms = time.Since(start).Milliseconds()
				if !cfg.CrossCheck {
					cancel()
				}
			} else if decided.st != x.st {
				res.Status = "disagree"
				res.Output = fmt.Sprintf("%s says %s, %s says %s", decided.name, decided.st, x.name, x.st)
				return res
			}
		}
	}
	if decided != nil {
		res.Status, res.Solver, res.Output = decided.st, decided.name, decided.out
		return res
	}
	res.Ms = time.Since(start).Milliseconds()
	res.Status = "timeout"
	allErr := true
	for _, v := range res.All {
		if v != "error" {
			allErr = false
		}
	}
	if allErr {
		res.Status = "error"
	}
	var sb strings.Builder
	for k, v := range res.All {
		fmt.Fprintf(&sb, "%s: %s\n", k, v)
	}
	res.Output = sb.String()
	for _, v := range res.All {
		if v == "unknown" {
			res.Status = "unknown"
		}
	}
	return res
}

// SolveFirstOnly runs z3-new alone with the first-stage limit.
func SolveFirstOnly(cfg *SolverCfg, script string) *SolveResult {
	n := atomic.AddInt64(&queryCounter, 1)
	file := filepath.Join(cfg.ScratchDir, fmt.Sprintf("s%06d.smt2", n))
	if err := os.WriteFile(file, []byte(script), 0o644); err != nil {
		return &SolveResult{Status: "error", Output: err.Error()}
	}
	defer os.Remove(file)
	start := time.Now()
	st, out := runOne(context.Background(), "z3-new", file, cfg.FirstS, cfg.Seed)
	return &SolveResult{Status: st, Solver: "z3-new", Output: out, Ms: time.Since(start).Milliseconds(), All: map[string]string{"z3-new": st}}
}
