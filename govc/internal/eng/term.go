// Package eng is the govc verification-condition engine: SSA of the real
// packages -> obligations -> SMT-LIB -> z3 / cvc5.
package eng

import (
	"fmt"
	"math/big"
	"sort"
	"strconv"
	"strings"
)

// ---------------------------------------------------------------- sorts

type SortKind int

const (
	KBool SortKind = iota
	KInt
	KBV
	KStr // uninterpreted sort vp_Str
	KArray
)

type Sort struct {
	K    SortKind
	W    int
	Idx  *Sort
	Elem *Sort
	str  string
}

var sortTab = map[string]*Sort{}

func internSort(s *Sort) *Sort {
	if o, ok := sortTab[s.str]; ok {
		return o
	}
	sortTab[s.str] = s
	return s
}

var (
	SBool = internSort(&Sort{K: KBool, str: "Bool"})
	SInt  = internSort(&Sort{K: KInt, str: "Int"})
	SStr  = internSort(&Sort{K: KStr, str: "vp_Str"})
)

func BVSort(w int) *Sort { return internSort(&Sort{K: KBV, W: w, str: fmt.Sprintf("(_ BitVec %d)", w)}) }
func ArraySort(i, e *Sort) *Sort {
	return internSort(&Sort{K: KArray, Idx: i, Elem: e, str: "(Array " + i.str + " " + e.str + ")"})
}
func (s *Sort) String() string { return s.str }

// ---------------------------------------------------------------- terms

type Term struct {
	Op    string // const int true false and or not => = distinct ite + - * div mod < <= > >= select store app forall exists bv* ...
	Name  string
	Args  []*Term
	S     *Sort
	IV    *big.Int
	Bound []*Term
	Pats  []*Term // quantifier patterns (alternatives)
	id    int
	h     uint64 // structural hash: independent of the order in which terms were created
}

var (
	termTab  = map[string]*Term{}
	termNext = 1
)

func mk(op, name string, s *Sort, iv *big.Int, bound []*Term, args ...*Term) *Term {
	var sb strings.Builder
	sb.WriteString(op)
	sb.WriteByte('|')
	sb.WriteString(name)
	sb.WriteByte('|')
	sb.WriteString(s.str)
	if iv != nil {
		sb.WriteByte('#')
		sb.WriteString(iv.String())
	}
	for _, b := range bound {
		sb.WriteByte('^')
		sb.WriteString(strconv.Itoa(b.id))
	}
	for _, a := range args {
		sb.WriteByte(',')
		sb.WriteString(strconv.Itoa(a.id))
	}
	k := sb.String()
	if t, ok := termTab[k]; ok {
		return t
	}
	t := &Term{Op: op, Name: name, Args: args, S: s, IV: iv, Bound: bound, id: termNext, h: structHash(op, name, s, iv, bound, args)}
	termNext++
	termTab[k] = t
	return t
}

// structHash: FNV-1a over the operator, name, sort, literal and the hashes of the
// children. Used wherever an arbitrary but reproducible order of terms is needed
// (the ids follow creation order, which depends on how the workers interleave).
func structHash(op, name string, s *Sort, iv *big.Int, bound, args []*Term) uint64 {
	h := uint64(14695981039346656037)
	mixS := func(x string) {
		for i := 0; i < len(x); i++ {
			h ^= uint64(x[i])
			h *= 1099511628211
		}
		h ^= 0xff
		h *= 1099511628211
	}
	mixU := func(x uint64) {
		for i := 0; i < 8; i++ {
			h ^= x & 0xff
			h *= 1099511628211
			x >>= 8
		}
	}
	mixS(op)
	mixS(name)
	mixS(s.str)
	if iv != nil {
		mixS(iv.String())
	}
	for _, b := range bound {
		mixU(b.h)
	}
	mixU(uint64(len(args)))
	for _, a := range args {
		mixU(a.h)
	}
	return h
}

// termBefore: reproducible total order (hash, then id to break the rare tie).
func termBefore(a, b *Term) bool {
	if a.h != b.h {
		return a.h < b.h
	}
	return a.id < b.id
}

var (
	True  = mk("true", "", SBool, nil, nil)
	False = mk("false", "", SBool, nil, nil)
)

func Const(name string, s *Sort) *Term { return mk("const", name, s, nil, nil) }
func IntLit(v int64) *Term              { return mk("int", "", SInt, big.NewInt(v), nil) }
func BigLit(v *big.Int) *Term           { return mk("int", "", SInt, new(big.Int).Set(v), nil) }
func BVLit(v *big.Int, w int) *Term {
	m := new(big.Int).Lsh(big.NewInt(1), uint(w))
	x := new(big.Int).Mod(v, m)
	return mk("bvlit", "", BVSort(w), x, nil)
}
func Bool(b bool) *Term {
	if b {
		return True
	}
	return False
}

func (t *Term) IsTrue() bool  { return t == True }
func (t *Term) IsFalse() bool { return t == False }
func (t *Term) IsLit() bool   { return t.Op == "int" }

func And(ts ...*Term) *Term {
	var out []*Term
	seen := map[*Term]bool{}
	for _, t := range ts {
		if t == nil || t.IsTrue() {
			continue
		}
		if t.IsFalse() {
			return False
		}
		if t.Op == "and" {
			for _, a := range t.Args {
				if !seen[a] {
					seen[a] = true
					out = append(out, a)
				}
			}
			continue
		}
		if !seen[t] {
			seen[t] = true
			out = append(out, t)
		}
	}
	switch len(out) {
	case 0:
		return True
	case 1:
		return out[0]
	}
	return mk("and", "", SBool, nil, nil, out...)
}

func Or(ts ...*Term) *Term {
	var out []*Term
	seen := map[*Term]bool{}
	for _, t := range ts {
		if t == nil || t.IsFalse() {
			continue
		}
		if t.IsTrue() {
			return True
		}
		if t.Op == "or" {
			for _, a := range t.Args {
				if !seen[a] {
					seen[a] = true
					out = append(out, a)
				}
			}
			continue
		}
		if !seen[t] {
			seen[t] = true
			out = append(out, t)
		}
	}
	switch len(out) {
	case 0:
		return False
	case 1:
		return out[0]
	}
	return mk("or", "", SBool, nil, nil, out...)
}

func Not(t *Term) *Term {
	switch {
	case t.IsTrue():
		return False
	case t.IsFalse():
		return True
	case t.Op == "not":
		return t.Args[0]
	}
	return mk("not", "", SBool, nil, nil, t)
}

func Implies(a, b *Term) *Term {
	switch {
	case a.IsTrue():
		return b
	case a.IsFalse() || b.IsTrue():
		return True
	case b.IsFalse():
		return Not(a)
	}
	return mk("=>", "", SBool, nil, nil, a, b)
}

func Iff(a, b *Term) *Term { return Eq(a, b) }

func Eq(a, b *Term) *Term {
	if a == b {
		return True
	}
	if a.S != b.S {
		panic(fmt.Sprintf("Eq: sort mismatch %s vs %s (%s / %s)", a.S, b.S, a, b))
	}
	if a.Op == "int" && b.Op == "int" {
		return Bool(a.IV.Cmp(b.IV) == 0)
	}
	if a.Op == "bvlit" && b.Op == "bvlit" {
		return Bool(a.IV.Cmp(b.IV) == 0)
	}
	if a.S == SBool {
		if a.IsTrue() {
			return b
		}
		if b.IsTrue() {
			return a
		}
		if a.IsFalse() {
			return Not(b)
		}
		if b.IsFalse() {
			return Not(a)
		}
	}
	if termBefore(b, a) {
		a, b = b, a
	}
	return mk("=", "", SBool, nil, nil, a, b)
}

func Ne(a, b *Term) *Term { return Not(Eq(a, b)) }

func Ite(c, a, b *Term) *Term {
	if c.IsTrue() {
		return a
	}
	if c.IsFalse() {
		return b
	}
	if a == b {
		return a
	}
	if a.S != b.S {
		panic(fmt.Sprintf("Ite: sort mismatch %s vs %s", a.S, b.S))
	}
	if a.S == SBool {
		if a.IsTrue() && b.IsFalse() {
			return c
		}
		if a.IsFalse() && b.IsTrue() {
			return Not(c)
		}
	}
	return mk("ite", "", a.S, nil, nil, c, a, b)
}

func arith(op string, a, b *Term) *Term {
	if a.S != SInt || b.S != SInt {
		panic(fmt.Sprintf("arith %s: non-Int operands %s:%s %s:%s", op, a, a.S, b, b.S))
	}
	if a.Op == "int" && b.Op == "int" {
		r := new(big.Int)
		switch op {
		case "+":
			return BigLit(r.Add(a.IV, b.IV))
		case "-":
			return BigLit(r.Sub(a.IV, b.IV))
		case "*":
			return BigLit(r.Mul(a.IV, b.IV))
		}
	}
	if b.Op == "int" && b.IV.Sign() == 0 && (op == "+" || op == "-") {
		return a
	}
	if op == "-" {
		if a == b {
			return IntLit(0)
		}
		if a.Op == "+" {
			if a.Args[1] == b {
				return a.Args[0]
			}
			if a.Args[0] == b {
				return a.Args[1]
			}
		}
	}
	if op == "+" {
		if a.Op == "-" && a.Args[1] == b {
			return a.Args[0]
		}
		if b.Op == "-" && b.Args[1] == a {
			return b.Args[0]
		}
	}
	if a.Op == "int" && a.IV.Sign() == 0 && op == "+" {
		return b
	}
	if op == "*" {
		if b.Op == "int" && b.IV.Cmp(big.NewInt(1)) == 0 {
			return a
		}
		if a.Op == "int" && a.IV.Cmp(big.NewInt(1)) == 0 {
			return b
		}
	}
	return mk(op, "", SInt, nil, nil, a, b)
}

func Add(a, b *Term) *Term { return arith("+", a, b) }
func Sub(a, b *Term) *Term { return arith("-", a, b) }
func Mul(a, b *Term) *Term { return arith("*", a, b) }
func Neg(a *Term) *Term    { return Sub(IntLit(0), a) }

// EDiv / EMod are SMT-LIB's euclidean div/mod (total; x div 0 unspecified).
func EDiv(a, b *Term) *Term {
	if a.Op == "int" && b.Op == "int" && b.IV.Sign() != 0 {
		q, m := new(big.Int).DivMod(a.IV, b.IV, new(big.Int))
		_ = m
		return BigLit(q)
	}
	return mk("div", "", SInt, nil, nil, a, b)
}
func EMod(a, b *Term) *Term {
	if a.Op == "int" && b.Op == "int" && b.IV.Sign() != 0 {
		_, m := new(big.Int).DivMod(a.IV, b.IV, new(big.Int))
		return BigLit(m)
	}
	return mk("mod", "", SInt, nil, nil, a, b)
}

func cmp(op string, a, b *Term) *Term {
	if a.S != SInt || b.S != SInt {
		panic(fmt.Sprintf("cmp %s: non-Int operands %s:%s %s:%s", op, a, a.S, b, b.S))
	}
	if a.Op == "int" && b.Op == "int" {
		c := a.IV.Cmp(b.IV)
		switch op {
		case "<":
			return Bool(c < 0)
		case "<=":
			return Bool(c <= 0)
		}
	}
	if a == b {
		return Bool(op == "<=")
	}
	return mk(op, "", SBool, nil, nil, a, b)
}

func Lt(a, b *Term) *Term { return cmp("<", a, b) }
func Le(a, b *Term) *Term { return cmp("<=", a, b) }
func Gt(a, b *Term) *Term { return cmp("<", b, a) }
func Ge(a, b *Term) *Term { return cmp("<=", b, a) }

func Select(a, i *Term) *Term {
	if a.S.K != KArray {
		panic("select on non-array " + a.String())
	}
	if a.S.Idx != i.S {
		panic(fmt.Sprintf("select index sort mismatch: %s[%s:%s]", a.S, i, i.S))
	}
	if a.Op == "constarr" {
		return a.Args[0]
	}
	if a.Op == "ite" {
		// push reads through conditionals so that reads of named arrays become visible
		return Ite(a.Args[0], Select(a.Args[1], i), Select(a.Args[2], i))
	}
	// read-over-write with syntactically equal / distinct-literal index
	for a.Op == "store" {
		if a.Args[1] == i {
			return a.Args[2]
		}
		if a.Args[1].Op == "int" && i.Op == "int" {
			a = a.Args[0]
			if a.Op == "constarr" {
				return a.Args[0]
			}
			continue
		}
		break
	}
	return mk("select", "", a.S.Elem, nil, nil, a, i)
}

func Store(a, i, v *Term) *Term {
	if a.S.K != KArray || a.S.Idx != i.S || a.S.Elem != v.S {
		panic(fmt.Sprintf("store sort mismatch: %s [%s:%s] := %s:%s", a.S, i, i.S, v, v.S))
	}
	return mk("store", "", a.S, nil, nil, a, i, v)
}

// App is an application of an uninterpreted (or defined) function.
func App(name string, s *Sort, args ...*Term) *Term { return mk("app", name, s, nil, nil, args...) }

// BVOp builds a bit-vector operation (bvadd bvand bvor bvxor bvshl bvlshr bvnot bvult ...).
func BVOp(op string, s *Sort, args ...*Term) *Term { return mk(op, "", s, nil, nil, args...) }

func BoundVar(name string, s *Sort) *Term { return mk("bound", name, s, nil, nil) }

func Forall(vars []*Term, body *Term) *Term {
	if len(vars) == 0 || body.IsTrue() || body.IsFalse() {
		return body
	}
	return mk("forall", "", SBool, nil, vars, body)
}
// ForallPat is a universally quantified assumption with E-matching patterns.
func ForallPat(vars []*Term, body *Term, pats ...*Term) *Term {
	if len(vars) == 0 || body.IsTrue() || body.IsFalse() {
		return body
	}
	t := mk("forall", "", SBool, nil, vars, append([]*Term{body}, pats...)...)
	if t.Pats == nil && len(pats) > 0 {
		t.Pats = pats
		t.Args = t.Args[:1]
	}
	return t
}

// ForallPatExact: like ForallPat, but instantiated only at reads of exactly the
// pattern's array term (used for per-version typing axioms, which would otherwise
// match every read of an array of that sort).
func ForallPatExact(vars []*Term, body *Term, pats ...*Term) *Term {
	if len(vars) == 0 || body.IsTrue() || body.IsFalse() {
		return body
	}
	t := mk("forall", "exact", SBool, nil, vars, append([]*Term{body}, pats...)...)
	if t.Pats == nil && len(pats) > 0 {
		t.Pats = pats
		t.Args = t.Args[:1]
	}
	return t
}

func Exists(vars []*Term, body *Term) *Term {
	if len(vars) == 0 || body.IsTrue() || body.IsFalse() {
		return body
	}
	return mk("exists", "", SBool, nil, vars, body)
}

// Subst replaces bound variables / constants per the map.
func Subst(t *Term, m map[*Term]*Term) *Term {
	memo := map[*Term]*Term{}
	var rec func(t *Term) *Term
	rec = func(t *Term) *Term {
		if r, ok := m[t]; ok {
			return r
		}
		if len(t.Args) == 0 {
			return t
		}
		if r, ok := memo[t]; ok {
			return r
		}
		args := make([]*Term, len(t.Args))
		ch := false
		for i, a := range t.Args {
			args[i] = rec(a)
			if args[i] != a {
				ch = true
			}
		}
		r := t
		if t.Op == "forall" && len(t.Pats) > 0 {
			pats := make([]*Term, len(t.Pats))
			for i, p := range t.Pats {
				pats[i] = rec(p)
				if pats[i] != p {
					ch = true
				}
			}
			if ch {
				if t.Name == "exact" {
					r = ForallPatExact(t.Bound, args[0], pats...)
				} else {
					r = ForallPat(t.Bound, args[0], pats...)
				}
			}
		} else if ch {
			r = rebuild(t, args)
		}
		memo[t] = r
		return r
	}
	return rec(t)
}

func rebuild(t *Term, args []*Term) *Term {
	switch t.Op {
	case "and":
		return And(args...)
	case "or":
		return Or(args...)
	case "not":
		return Not(args[0])
	case "=>":
		return Implies(args[0], args[1])
	case "=":
		return Eq(args[0], args[1])
	case "ite":
		return Ite(args[0], args[1], args[2])
	case "+", "-", "*":
		return arith(t.Op, args[0], args[1])
	case "div":
		return EDiv(args[0], args[1])
	case "mod":
		return EMod(args[0], args[1])
	case "<", "<=":
		return cmp(t.Op, args[0], args[1])
	case "select":
		return Select(args[0], args[1])
	case "store":
		return Store(args[0], args[1], args[2])
	}
	return mk(t.Op, t.Name, t.S, t.IV, t.Bound, args...)
}

// ---------------------------------------------------------------- printing

func quoteSym(n string) string {
	simple := true
	for _, c := range n {
		if !(c >= 'a' && c <= 'z' || c >= 'A' && c <= 'Z' || c >= '0' && c <= '9' || c == '_' || c == '.' || c == '$' || c == '@' || c == '!') {
			simple = false
			break
		}
	}
	if simple && n != "" && !(n[0] >= '0' && n[0] <= '9') && n[0] != '#' {
		return n
	}
	return "|" + strings.ReplaceAll(strings.ReplaceAll(n, "|", "!"), "\\", "!") + "|"
}

func (t *Term) String() string {
	var sb strings.Builder
	t.write(&sb)
	return sb.String()
}

func (t *Term) write(sb *strings.Builder) {
	switch t.Op {
	case "true", "false":
		sb.WriteString(t.Op)
	case "const", "bound":
		sb.WriteString(quoteSym(t.Name))
	case "int":
		if t.IV.Sign() < 0 {
			sb.WriteString("(- ")
			sb.WriteString(new(big.Int).Neg(t.IV).String())
			sb.WriteString(")")
		} else {
			sb.WriteString(t.IV.String())
		}
	case "bvlit":
		fmt.Fprintf(sb, "(_ bv%s %d)", t.IV.String(), t.S.W)
	case "constarr":
		fmt.Fprintf(sb, "((as const %s) ", t.S)
		t.Args[0].write(sb)
		sb.WriteString(")")
	case "app":
		if len(t.Args) == 0 {
			sb.WriteString(quoteSym(t.Name))
			return
		}
		sb.WriteString("(")
		sb.WriteString(quoteSym(t.Name))
		for _, a := range t.Args {
			sb.WriteByte(' ')
			a.write(sb)
		}
		sb.WriteString(")")
	case "forall", "exists":
		sb.WriteString("(")
		sb.WriteString(t.Op)
		sb.WriteString(" (")
		for _, b := range t.Bound {
			fmt.Fprintf(sb, "(%s %s)", quoteSym(b.Name), b.S)
		}
		sb.WriteString(") ")
		if len(t.Pats) > 0 {
			sb.WriteString("(! ")
			t.Args[0].write(sb)
			for _, p := range t.Pats {
				sb.WriteString(" :pattern (")
				p.write(sb)
				sb.WriteString(")")
			}
			sb.WriteString("))")
			return
		}
		t.Args[0].write(sb)
		sb.WriteString(")")
	default:
		sb.WriteString("(")
		sb.WriteString(t.Op)
		for _, a := range t.Args {
			sb.WriteByte(' ')
			a.write(sb)
		}
		sb.WriteString(")")
	}
}

// FunDecl describes an uninterpreted function used in a script.
type FunDecl struct {
	Name string
	Args []*Sort
	Res  *Sort
}

// collectSyms gathers constants and applied function symbols of a set of terms.
func collectSyms(ts []*Term, consts map[string]*Sort, funs map[string]*FunDecl, visited map[*Term]bool) {
	var rec func(t *Term)
	rec = func(t *Term) {
		if visited[t] {
			return
		}
		visited[t] = true
		switch t.Op {
		case "const":
			consts[t.Name] = t.S
		case "app":
			if _, ok := funs[t.Name]; !ok {
				fd := &FunDecl{Name: t.Name, Res: t.S}
				for _, a := range t.Args {
					fd.Args = append(fd.Args, a.S)
				}
				funs[t.Name] = fd
			}
		}
		for _, a := range t.Args {
			rec(a)
		}
	}
	for _, t := range ts {
		rec(t)
	}
}

func hasQuant(t *Term, visited map[*Term]bool) bool {
	if visited[t] {
		return false
	}
	visited[t] = true
	if t.Op == "forall" || t.Op == "exists" {
		return true
	}
	for _, a := range t.Args {
		if hasQuant(a, visited) {
			return true
		}
	}
	return false
}

// ScriptValues renders a script that asks for the values of the given terms.
func ScriptValues(asserts []*Term, terms []*Term) string {
	base := Script(append(append([]*Term{}, asserts...), valueKeepers(terms)...), false)
	var sb strings.Builder
	sb.WriteString("(set-option :produce-models true)\n")
	sb.WriteString(base)
	sb.WriteString("(get-value (")
	for _, t := range terms {
		t.write(&sb)
		sb.WriteByte(' ')
	}
	sb.WriteString("))\n")
	return sb.String()
}

// valueKeepers are trivially true assertions that make sure every symbol of the
// requested terms is declared.
func valueKeepers(terms []*Term) []*Term {
	var out []*Term
	for _, t := range terms {
		out = append(out, mk("=", "", SBool, nil, nil, t, t))
	}
	return out
}

// Script renders assertions as an SMT-LIB 2.6 script (check-sat + get-model).
func Script(asserts []*Term, wantModel bool) string {
	consts := map[string]*Sort{}
	funs := map[string]*FunDecl{}
	collectSyms(asserts, consts, funs, map[*Term]bool{})
	var sb strings.Builder
	if wantModel {
		sb.WriteString("(set-option :produce-models true)\n")
	}
	sb.WriteString("(set-logic ALL)\n")
	sb.WriteString("(declare-sort vp_Str 0)\n")
	names := make([]string, 0, len(consts))
	for n := range consts {
		names = append(names, n)
	}
	sort.Strings(names)
	for _, n := range names {
		fmt.Fprintf(&sb, "(declare-fun %s () %s)\n", quoteSym(n), consts[n])
	}
	names = names[:0]
	for n := range funs {
		names = append(names, n)
	}
	sort.Strings(names)
	for _, n := range names {
		fd := funs[n]
		fmt.Fprintf(&sb, "(declare-fun %s (", quoteSym(n))
		for i, a := range fd.Args {
			if i > 0 {
				sb.WriteByte(' ')
			}
			sb.WriteString(a.String())
		}
		fmt.Fprintf(&sb, ") %s)\n", fd.Res)
	}
	for _, a := range asserts {
		if a.IsTrue() {
			continue
		}
		sb.WriteString("(assert ")
		a.write(&sb)
		sb.WriteString(")\n")
	}
	sb.WriteString("(check-sat)\n")
	if wantModel {
		sb.WriteString("(get-model)\n")
	}
	return sb.String()
}

var freeBoundMemo = map[*Term]bool{}

// hasFreeBound reports whether a bound variable occurs outside its binder.
func hasFreeBound(t *Term) bool {
	if v, ok := freeBoundMemo[t]; ok {
		return v
	}
	var rec func(t *Term, bound map[*Term]bool) bool
	rec = func(t *Term, bound map[*Term]bool) bool {
		if t.Op == "bound" {
			return !bound[t]
		}
		if len(t.Args) == 0 {
			return false
		}
		if t.Op == "forall" || t.Op == "exists" {
			nb := map[*Term]bool{}
			for k := range bound {
				nb[k] = true
			}
			for _, b := range t.Bound {
				nb[b] = true
			}
			bound = nb
		}
		for _, a := range t.Args {
			if rec(a, bound) {
				return true
			}
		}
		return false
	}
	r := rec(t, map[*Term]bool{})
	freeBoundMemo[t] = r
	return r
}
