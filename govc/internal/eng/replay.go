package eng

import (
	"bytes"
	"encoding/json"
	"fmt"
	"go/types"
	"math/big"
	"os"
	"os/exec"
	"path/filepath"
	"sort"
	"strings"
	"sync/atomic"

	"golang.org/x/tools/go/ssa"
)

// Replay turns a counterexample model into an in-package Go test and runs it on
// the real code (go test -overlay, nothing is written under the repo).
// Outcome: confirmed | not-reproduced | no-harness | build-error.
func Replay(o *Obligation, m *Model, opts *CheckOpts) (outcome, detail, testSrc string) {
	defer func() {
		if e := recover(); e != nil {
			outcome, detail = "no-harness", fmt.Sprintf("replay generator failed: %v", e)
		}
	}()
	g := o.Gen
	fn := g.Fn
	if fn.Parent() != nil || fn.Pkg == nil {
		return "no-harness", "closures are not replayed directly", ""
	}
	// term construction is single-threaded: the lock is held except while an
	// external process (solver, go test) runs
	termMu.Lock()
	defer termMu.Unlock()
	rp := &replayer{o: o, g: g, opts: opts}
	// hand-written harness for stateful units (file system, goroutines, ...)
	if hb, err := os.ReadFile(filepath.Join(opts.VerifDir, "replay", sanitize(ShortKey(g.Key))+".go.txt")); err == nil {
		src := string(hb)
		out, err := rp.run(src)
		if err != nil {
			return "build-error", err.Error() + "\n" + out, src
		}
		oc, det := rp.judgeHarness(out)
		return oc, det, src
	}
	if why := rp.plan(); why != "" {
		return "no-harness", why, ""
	}
	if why := rp.concretize(); why != "" {
		if strings.HasPrefix(why, "NOHARNESS ") {
			return "no-harness", strings.TrimPrefix(why, "NOHARNESS "), ""
		}
		return "not-reproduced", why, ""
	}
	src := rp.testSource()
	out, err := rp.run(src)
	if err != nil {
		return "build-error", err.Error() + "\n" + out, src
	}
	oc, det := rp.judge(out)
	return oc, det, src
}

type rparam struct {
	name string
	ty   types.Type
	v    Val
	kind string // int bool string slice ptr struct
	// concretized
	code string // Go expression / setup statements
}

type replayer struct {
	o      *Obligation
	g      *Gen
	opts   *CheckOpts
	params []*rparam
	vals   map[*Term]*SExpr
	setup  []string
	args   []string
	notes  []string
	retTerms []Val
	imports  map[string]string
}

func (rp *replayer) supported(t types.Type, depth int) bool {
	if _, _, ok := intRange(t); ok {
		return true
	}
	switch u := t.Underlying().(type) {
	case *types.Basic:
		return u.Info()&(types.IsBoolean|types.IsString) != 0
	case *types.Slice:
		_, _, ok := intRange(u.Elem())
		return ok || (depth == 0 && rp.supportedStruct(u.Elem()))
	case *types.Pointer:
		if depth > 1 {
			return false
		}
		if _, _, ok := intRange(u.Elem()); ok {
			return true
		}
		return rp.supportedStruct(u.Elem())
	case *types.Struct:
		return rp.supportedStruct(t)
	case *types.Interface:
		return false
	}
	return false
}

func (rp *replayer) supportedStruct(t types.Type) bool {
	st, ok := t.Underlying().(*types.Struct)
	if !ok {
		return false
	}
	for i := 0; i < st.NumFields(); i++ {
		ft := st.Field(i).Type()
		if _, _, ok := intRange(ft); ok {
			continue
		}
		switch u := ft.Underlying().(type) {
		case *types.Basic:
			if u.Info()&(types.IsBoolean|types.IsString) != 0 {
				continue
			}
			return false
		case *types.Struct:
			if !rp.supportedStruct(ft) {
				return false
			}
		default:
			// other fields stay zero-valued
			rp.notes = append(rp.notes, fmt.Sprintf("field %s of %s left zero", st.Field(i).Name(), typeStr(t)))
		}
	}
	return true
}

func (rp *replayer) plan() string {
	for _, p := range rp.g.Fn.Params {
		if !rp.supported(p.Type(), 0) {
			return fmt.Sprintf("parameter %s of type %s cannot be built from a model", p.Name(), typeStr(p.Type()))
		}
		rp.params = append(rp.params, &rparam{name: p.Name(), ty: p.Type(), v: rp.g.params[p.Name()]})
	}
	return ""
}

func (rp *replayer) solveValues(extra []*Term, terms []*Term) (map[*Term]*SExpr, string) {
	asserts := rp.o.asserts(false, extra...)
	script := ScriptValues(asserts, terms)
	termMu.Unlock()
	defer termMu.Lock()
	scratch := os.Getenv("VP_SCRATCH")
	if scratch == "" {
		scratch = fmt.Sprintf("/var/tmp/vp-%d", os.Getpid())
	}
	os.MkdirAll(scratch, 0o755)
	n := atomic.AddInt64(&queryCounter, 1)
	file := filepath.Join(scratch, fmt.Sprintf("rv%06d.smt2", n))
	os.WriteFile(file, []byte(script), 0o644)
	defer os.Remove(file)
	cmd := exec.Command("z3-new", "-T:30", file)
	var out bytes.Buffer
	cmd.Stdout = &out
	cmd.Stderr = &out
	cmd.Run()
	s := out.String()
	first := strings.TrimSpace(strings.SplitN(s, "\n", 2)[0])
	if first != "sat" {
		return nil, first
	}
	es := parseSExprs(s[strings.Index(s, "\n")+1:])
	res := map[*Term]*SExpr{}
	if len(es) == 0 || !es[0].IsL {
		return res, "sat"
	}
	for i, pair := range es[0].List {
		if i < len(terms) && pair.IsL && len(pair.List) == 2 {
			res[terms[i]] = pair.List[1]
		}
	}
	return res, "sat"
}

func leafTerms(v Val) []*Term {
	var out []*Term
	switch v.K {
	case VScalar:
		if v.T != nil {
			out = append(out, v.T)
		}
	case VSlice, VStruct, VTuple:
		for _, f := range v.F {
			out = append(out, leafTerms(f)...)
		}
	}
	return out
}

func (rp *replayer) concretize() string {
	g := rp.g
	// stage 1: scalar leaves, with small-buffer side constraints
	var terms []*Term
	var side []*Term
	for _, p := range rp.params {
		terms = append(terms, leafTerms(p.v)...)
		if p.v.K == VSlice {
			side = append(side, Le(p.v.F[2].T, IntLit(4096)), Le(p.v.F[3].T, IntLit(8192)), Eq(p.v.F[1].T, IntLit(0)))
		}
	}
	// heap structure the generator cannot build (pointers, maps, interfaces, strings
	// inside pointed-to structs) is left nil / empty: the counterexample must survive that
	var unbuildable []*Term
	for _, p := range rp.params {
		pt, ok := p.ty.Underlying().(*types.Pointer)
		if !ok || p.v.K != VScalar {
			continue
		}
		for _, lf := range leavesOf(pt.Elem()) {
			if _, _, isInt := intRange(lf.Ty); isInt || lf.Sort == SBool || strings.Contains(lf.Path, "#") {
				if !strings.Contains(lf.Path, "#") {
					continue
				}
			}
			if acc, _ := rp.fieldAccess(pt.Elem(), lf.Acc); acc == "" && !strings.Contains(lf.Path, "#") {
				continue // foreign unexported field (mutex internals): irrelevant to contracts
			}
			a := &Addr{Root: RObj, RootT: pt.Elem()}
			name := g.compName(a, lf)
			cell := Select(Const("H0:"+name, g.compSort(RObj, lf.Sort)), p.v.T)
			switch lf.Sort {
			case SInt:
				unbuildable = append(unbuildable, Eq(cell, IntLit(0)))
			case SStr:
				unbuildable = append(unbuildable, Eq(cell, emptyStr))
			}
		}
	}
	side = append(side, unbuildable...)
	vals, st := rp.solveValues(side, terms)
	if st != "sat" {
		vals, st = rp.solveValues(unbuildable, terms)
		if st != "sat" {
			if len(unbuildable) > 0 {
				return "NOHARNESS the counterexample needs heap structure (pointers, maps, interfaces or strings behind a parameter) that the test generator cannot build"
			}
			return "no model for the unsliced query (" + st + ")"
		}
		side = unbuildable
	}
	// stage 2: fix the scalars, ask for contents / pointees / predicted results
	var fix []*Term
	for _, t := range terms {
		if e, ok := vals[t]; ok && t.S == SInt {
			if iv, ok := e.intValue(); ok {
				fix = append(fix, Eq(t, BigLit(iv)))
			}
		} else if ok && t.S == SBool {
			fix = append(fix, Eq(t, Bool(e.Atom == "true")))
		}
	}
	var terms2 []*Term
	type want struct {
		p     *rparam
		elems []*Term
		leafs []leaf
		lts   []*Term
	}
	wants := map[*rparam]*want{}
	h0 := func(name string, s *Sort) *Term { return Const("H0:"+name, s) }
	for _, p := range rp.params {
		w := &want{p: p}
		wants[p] = w
		switch u := p.ty.Underlying().(type) {
		case *types.Slice:
			n, ok := vals[p.v.F[2].T].intValue()
			if !ok || n.Cmp(big.NewInt(1<<22)) > 0 {
				return fmt.Sprintf("model needs a %s-element buffer for %s", n, p.name)
			}
			if _, _, isInt := intRange(u.Elem()); isInt {
				name := g.compName(&Addr{Root: RElem, RootT: u.Elem()}, leaf{})
				arr := Select(h0(name, g.compSort(RElem, SInt)), p.v.F[0].T)
				for i := int64(0); i < n.Int64(); i++ {
					w.elems = append(w.elems, Select(arr, Add(p.v.F[1].T, IntLit(i))))
				}
				terms2 = append(terms2, w.elems...)
			}
		case *types.Pointer:
			w.leafs = leavesOf(u.Elem())
			for _, lf := range w.leafs {
				a := &Addr{Root: RObj, RootT: u.Elem()}
				name := g.compName(a, lf)
				t := Select(h0(name, g.compSort(RObj, lf.Sort)), p.v.T)
				w.lts = append(w.lts, t)
			}
			terms2 = append(terms2, w.lts...)
		}
	}
	// predicted results at the failing return
	vals2, st := rp.solveValues(append(side, fix...), terms2)
	if st != "sat" {
		vals2, st = rp.solveValues(fix, terms2)
		if st != "sat" {
			return "no model when fixing the inputs (" + st + ")"
		}
	}
	rp.vals = vals
	for k, v := range vals2 {
		rp.vals[k] = v
	}
	// build Go code
	for _, p := range rp.params {
		w := wants[p]
		vn := "in_" + sanitizeIdent(p.name)
		switch u := p.ty.Underlying().(type) {
		case *types.Slice:
			arr, _ := vals[p.v.F[0].T].intValue()
			n, _ := vals[p.v.F[2].T].intValue()
			c, _ := vals[p.v.F[3].T].intValue()
			if arr != nil && arr.Sign() == 0 {
				rp.setup = append(rp.setup, fmt.Sprintf("var %s %s", vn, rp.goType(p.ty)))
				break
			}
			if c.Cmp(big.NewInt(1<<22)) > 0 {
				c = n
			}
			rp.setup = append(rp.setup, fmt.Sprintf("%s := make(%s, %s, %s)", vn, rp.goType(p.ty), n, c))
			if _, _, isInt := intRange(u.Elem()); isInt {
				bits, signed, _ := intInfo(u.Elem())
				if bits == 8 && !signed {
					var lit strings.Builder
					nonzero := false
					for _, et := range w.elems {
						b := int64(0)
						if e, ok := rp.vals[et]; ok {
							if iv, ok := e.intValue(); ok {
								b = iv.Int64() & 0xff
							}
						}
						if b != 0 {
							nonzero = true
						}
						fmt.Fprintf(&lit, "\\x%02x", b)
					}
					if nonzero {
						rp.setup = append(rp.setup, fmt.Sprintf("copy(%s, \"%s\")", vn, lit.String()))
					}
				} else {
					for i, et := range w.elems {
						if e, ok := rp.vals[et]; ok {
							if iv, ok := e.intValue(); ok && iv.Sign() != 0 {
								rp.setup = append(rp.setup, fmt.Sprintf("%s[%d] = %s", vn, i, rp.intLit(iv, u.Elem())))
							}
						}
					}
				}
			}
		case *types.Pointer:
			ref, _ := vals[p.v.T].intValue()
			if ref == nil || ref.Sign() == 0 {
				rp.setup = append(rp.setup, fmt.Sprintf("var %s %s", vn, rp.goType(p.ty)))
				break
			}
			rp.setup = append(rp.setup, fmt.Sprintf("%s := new(%s)", vn, rp.goType(u.Elem())))
			for i, lf := range w.leafs {
				e, ok := rp.vals[w.lts[i]]
				if !ok || strings.Contains(lf.Path, "#") {
					continue
				}
				target := vn + lf.Path
				if lf.Path == "" {
					target = "*" + vn
				}
				if strings.Contains(lf.Path, "._") || strings.HasSuffix(lf.Path, "_") {
					continue
				}
				acc, atomicT := rp.fieldAccess(u.Elem(), lf.Acc)
				if acc == "" {
					continue // unexported field of another package: left zero
				}
				if atomicT != "" {
					if iv, ok := e.intValue(); ok {
						switch atomicT {
						case "Bool":
							rp.setup = append(rp.setup, fmt.Sprintf("%s%s.Store(%v)", vn, acc, iv.Sign() != 0))
						case "Int64":
							rp.setup = append(rp.setup, fmt.Sprintf("%s%s.Store(int64(%s))", vn, acc, iv))
						case "Int32":
							rp.setup = append(rp.setup, fmt.Sprintf("%s%s.Store(int32(%s))", vn, acc, iv))
						case "Uint64":
							rp.setup = append(rp.setup, fmt.Sprintf("%s%s.Store(uint64(%s))", vn, acc, iv))
						}
					}
					continue
				}
				switch {
				case lf.Sort == SBool:
					rp.setup = append(rp.setup, fmt.Sprintf("%s = %s", target, e.Atom))
				case lf.Sort == SInt:
					if _, _, isInt := intRange(lf.Ty); isInt {
						if iv, ok := e.intValue(); ok {
							rp.setup = append(rp.setup, fmt.Sprintf("%s = %s", target, rp.intLit(iv, lf.Ty)))
						}
					}
				}
			}
		case *types.Struct:
			rp.setup = append(rp.setup, fmt.Sprintf("var %s %s", vn, rp.goType(p.ty)))
			for _, lf := range leavesOf(p.ty) {
				lv := p.v.at(lf.Acc)
				if lv.K != VScalar || lv.T == nil || strings.Contains(lf.Path, "#") {
					continue
				}
				e, ok := vals[lv.T]
				if !ok {
					continue
				}
				if _, _, isInt := intRange(lf.Ty); isInt {
					if iv, ok := e.intValue(); ok {
						rp.setup = append(rp.setup, fmt.Sprintf("%s%s = %s", vn, lf.Path, rp.intLit(iv, lf.Ty)))
					}
				} else if lf.Sort == SBool {
					rp.setup = append(rp.setup, fmt.Sprintf("%s%s = %s", vn, lf.Path, e.Atom))
				}
			}
		default:
			e := vals[p.v.T]
			switch {
			case p.v.T != nil && p.v.T.S == SBool:
				a := "false"
				if e != nil {
					a = e.Atom
				}
				rp.setup = append(rp.setup, fmt.Sprintf("%s := %s", vn, a))
			case isStringType(p.ty):
				rp.setup = append(rp.setup, fmt.Sprintf("%s := %s(\"\")", vn, rp.goType(p.ty)))
				rp.notes = append(rp.notes, "string parameter "+p.name+" set to \"\" (strings are uninterpreted in the model)")
			default:
				iv := big.NewInt(0)
				if e != nil {
					if x, ok := e.intValue(); ok {
						iv = x
					}
				}
				rp.setup = append(rp.setup, fmt.Sprintf("%s := %s", vn, rp.intLit(iv, p.ty)))
			}
		}
		rp.args = append(rp.args, vn)
	}
	return ""
}

func sanitizeIdent(s string) string {
	var sb strings.Builder
	for _, c := range s {
		if c >= 'a' && c <= 'z' || c >= 'A' && c <= 'Z' || c >= '0' && c <= '9' || c == '_' {
			sb.WriteRune(c)
		} else {
			sb.WriteByte('_')
		}
	}
	return sb.String()
}

func (rp *replayer) goType(t types.Type) string {
	pkg := rp.g.Fn.Pkg.Pkg
	return types.TypeString(t, func(p *types.Package) string {
		if p == pkg {
			return ""
		}
		if rp.imports == nil {
			rp.imports = map[string]string{}
		}
		rp.imports[p.Path()] = p.Name()
		return p.Name()
	})
}

func (rp *replayer) intLit(v *big.Int, t types.Type) string {
	return fmt.Sprintf("%s(%s)", rp.goType(t), v.String())
}

func (rp *replayer) testSource() string {
	g := rp.g
	fn := g.Fn
	var sb strings.Builder
	fmt.Fprintf(&sb, "package %s\n\n", fn.Pkg.Pkg.Name())
	sb.WriteString("// Generated by govc from a solver model: replay of obligation\n")
	fmt.Fprintf(&sb, "// %s\n// clause: %s\n", rp.o.Name, rp.o.Clause)
	for _, n := range rp.notes {
		fmt.Fprintf(&sb, "// note: %s\n", n)
	}
	sb.WriteString("\nimport (\n\t\"errors\"\n\t\"fmt\"\n\t\"testing\"\n")
	var ips []string
	for p := range rp.imports {
		ips = append(ips, p)
	}
	sort.Strings(ips)
	for _, p := range ips {
		if p == "errors" || p == "fmt" || p == "testing" {
			continue
		}
		fmt.Fprintf(&sb, "\t%s %q\n", rp.imports[p], p)
	}
	sb.WriteString(")\n\nvar _ = errors.Is\n\n")
	sb.WriteString("func TestVPReplay(t *testing.T) {\n")
	for _, s := range rp.setup {
		fmt.Fprintf(&sb, "\t%s\n", s)
	}
	sb.WriteString("\tfunc() {\n\t\tdefer func() {\n\t\t\tif r := recover(); r != nil {\n\t\t\t\tfmt.Printf(\"VPR panic %q\\n\", fmt.Sprint(r))\n\t\t\t}\n\t\t}()\n")
	res := fn.Signature.Results()
	var rn []string
	for i := 0; i < res.Len(); i++ {
		rn = append(rn, fmt.Sprintf("r%d", i))
	}
	call := ""
	args := rp.args
	if fn.Signature.Recv() != nil {
		call = fmt.Sprintf("%s.%s(%s)", args[0], fn.Name(), strings.Join(args[1:], ", "))
	} else {
		call = fmt.Sprintf("%s(%s)", fn.Name(), strings.Join(args, ", "))
	}
	if fn.Signature.Variadic() {
		call = strings.TrimSuffix(call, ")") + "...)"
	}
	if len(rn) > 0 {
		fmt.Fprintf(&sb, "\t\t%s := %s\n", strings.Join(rn, ", "), call)
	} else {
		fmt.Fprintf(&sb, "\t\t%s\n", call)
	}
	sb.WriteString("\t\tfmt.Println(\"VPR returned\")\n")
	sentinels := rp.sentinelNames()
	for i := 0; i < res.Len(); i++ {
		t := res.At(i).Type()
		switch {
		case isErrorType(t):
			fmt.Fprintf(&sb, "\t\tfmt.Printf(\"VPR ret %d err %%v\\n\", r%d != nil)\n", i, i)
			for _, s := range sentinels {
				fmt.Fprintf(&sb, "\t\tfmt.Printf(\"VPR ret %d errIs %s %%v\\n\", errors.Is(r%d, %s))\n", i, s, i, s)
			}
		case func() bool { _, _, ok := intRange(t); return ok }():
			fmt.Fprintf(&sb, "\t\tfmt.Printf(\"VPR ret %d int %%d\\n\", r%d)\n", i, i)
		case scalarSort(t) == SBool:
			fmt.Fprintf(&sb, "\t\tfmt.Printf(\"VPR ret %d bool %%v\\n\", r%d)\n", i, i)
		default:
			if sl, ok := t.Underlying().(*types.Slice); ok {
				fmt.Fprintf(&sb, "\t\tfmt.Printf(\"VPR ret %d len %%d\\n\", len(r%d))\n", i, i)
				if _, _, isInt := intRange(sl.Elem()); isInt {
					fmt.Fprintf(&sb, "\t\tfmt.Printf(\"VPR ret %d elems %%v\\n\", r%d)\n", i, i)
				} else {
					fmt.Fprintf(&sb, "\t\tfmt.Printf(\"VPR ret %d elemsv %%+v\\n\", r%d)\n", i, i)
				}
			} else if _, ok := t.Underlying().(*types.Pointer); ok {
				fmt.Fprintf(&sb, "\t\tfmt.Printf(\"VPR ret %d ptr %%v\\n\", r%d != nil)\n", i, i)
			} else {
				fmt.Fprintf(&sb, "\t\t_ = r%d\n", i)
			}
		}
	}
	sb.WriteString("\t}()\n")
	for i, p := range rp.params {
		if _, ok := p.ty.Underlying().(*types.Slice); ok {
			fmt.Fprintf(&sb, "\tfmt.Printf(\"VPR post %s %%v\\n\", %s)\n", p.name, rp.args[i])
		}
	}
	sb.WriteString("}\n")
	return sb.String()
}

func (rp *replayer) sentinelNames() []string {
	var out []string
	sc := rp.g.Fn.Pkg.Pkg.Scope()
	for _, n := range sc.Names() {
		if v, ok := sc.Lookup(n).(*types.Var); ok && isErrorType(v.Type()) {
			out = append(out, n)
		}
	}
	sort.Strings(out)
	return out
}

func (rp *replayer) run(src string) (string, error) {
	pkgDir := strings.TrimPrefix(rp.g.Fn.Pkg.Pkg.Path(), ModPath+"/")
	termMu.Unlock()
	defer termMu.Lock()
	return runOverlayTest(rp.opts.RepoDir, pkgDir, src)
}

// runOverlayTest injects an in-package test through go test -overlay (nothing is
// written under the repo) and returns its output.
func runOverlayTest(repoDir, pkgDir, src string) (string, error) {
	scratch := os.Getenv("VP_SCRATCH")
	if scratch == "" {
		scratch = fmt.Sprintf("/var/tmp/vp-%d", os.Getpid())
	}
	n := atomic.AddInt64(&queryCounter, 1)
	dir := filepath.Join(scratch, fmt.Sprintf("replay%d", n))
	os.MkdirAll(dir, 0o755)
	defer os.RemoveAll(dir)
	testFile := filepath.Join(dir, "zz_vp_replay_test.go")
	os.WriteFile(testFile, []byte(src), 0o644)
	target := filepath.Join(repoDir, pkgDir, "zz_vp_replay_test.go")
	ov, _ := json.Marshal(map[string]any{"Replace": map[string]string{target: testFile}})
	ovFile := filepath.Join(dir, "overlay.json")
	os.WriteFile(ovFile, ov, 0o644)
	cmd := exec.Command("go", "test", "-tags", "verif", "-overlay", ovFile, "-vet=off", "-count=1", "-v", "-timeout", "60s", "-run", "^TestVPReplay$", "./"+pkgDir+"/")
	cmd.Dir = repoDir
	cmd.Env = append(os.Environ(), "GOFLAGS=-mod=mod", "GOPROXY=off")
	var out bytes.Buffer
	cmd.Stdout = &out
	cmd.Stderr = &out
	err := cmd.Run()
	s := out.String()
	if !strings.Contains(s, "VPR ") {
		if err != nil {
			return s, fmt.Errorf("go test failed: %v", err)
		}
		return s, fmt.Errorf("replay test produced no output")
	}
	return s, nil
}

var panicKinds = map[string]bool{"index": true, "slice-bounds": true, "nil-deref": true, "div-zero": true, "no-panic": true, "makeslice": true, "type-assert": true, "nil-map": true}

func (rp *replayer) judge(out string) (string, string) {
	var lines []string
	panicked := ""
	returned := false
	for _, l := range strings.Split(out, "\n") {
		if strings.HasPrefix(l, "VPR ") {
			lines = append(lines, l)
			if strings.HasPrefix(l, "VPR panic ") {
				panicked = strings.TrimPrefix(l, "VPR panic ")
			}
			if l == "VPR returned" {
				returned = true
			}
		}
	}
	detail := strings.Join(lines, "\n")
	if len(detail) > 4000 {
		detail = detail[:4000] + "..."
	}
	kind := rp.o.Kind
	if panicKinds[kind] || kind == "pre" {
		if panicked != "" {
			return "confirmed", "the real code panics on the model's input: " + panicked + "\n" + detail
		}
		return "not-reproduced", "the real code did not panic on the model's input\n" + detail
	}
	if kind == "post" {
		if panicked != "" {
			return "confirmed", "the real code panics on the model's input (postcondition cannot hold): " + panicked + "\n" + detail
		}
		if !returned {
			return "not-reproduced", detail
		}
		ok, why := rp.evalPost(lines)
		if ok == "false" {
			return "confirmed", "postcondition evaluates to false on the real result: " + why + "\n" + detail
		}
		if ok == "true" {
			return "not-reproduced", "postcondition holds on the real result for the model's input\n" + detail
		}
		return "not-reproduced", "postcondition could not be evaluated concretely: " + why + "\n" + detail
	}
	return "no-harness", "no concrete check for obligations of kind " + kind + "\n" + detail
}

// evalPost evaluates the failing ensures clause on the concrete inputs and the
// real outputs by folding terms over literals.
func (rp *replayer) evalPost(lines []string) (string, string) {
	g := rp.g
	o := rp.o
	// find the clause
	var cl *Clause
	for _, c := range g.C.Ensures {
		if c.Text == o.Clause {
			cl = c
		}
	}
	if cl == nil {
		return "unknown", "clause not found"
	}
	subst := map[*Term]*Term{}
	// inputs
	for t, e := range rp.vals {
		switch t.S {
		case SInt:
			if iv, ok := e.intValue(); ok {
				subst[t] = BigLit(iv)
			}
		case SBool:
			subst[t] = Bool(e.Atom == "true")
		}
	}
	// outputs: bind result names to literal values
	vars := map[string]Val{}
	res := g.Fn.Signature.Results()
	names := g.resultNames()
	st := g.entry.clone()
	nextRef := int64(1 << 40)
	for i := 0; i < res.Len(); i++ {
		t := res.At(i).Type()
		pfx := fmt.Sprintf("VPR ret %d ", i)
		var v Val
		found := false
		for _, l := range lines {
			if !strings.HasPrefix(l, pfx) {
				continue
			}
			f := strings.Fields(strings.TrimPrefix(l, pfx))
			if len(f) < 2 {
				continue
			}
			switch f[0] {
			case "int":
				iv, ok := new(big.Int).SetString(f[1], 10)
				if ok {
					v = scalar(BigLit(iv), t)
					found = true
				}
			case "bool":
				v = scalar(Bool(f[1] == "true"), t)
				found = true
			case "err":
				if f[1] == "false" {
					v = scalar(IntLit(0), t)
				} else {
					nextRef++
					v = scalar(IntLit(nextRef), t)
				}
				found = true
			case "ptr":
				if f[1] == "false" {
					v = scalar(IntLit(0), t)
					found = true
				}
			case "len":
				if sl, ok := t.Underlying().(*types.Slice); ok {
					n, _ := new(big.Int).SetString(f[1], 10)
					nextRef++
					ref := IntLit(nextRef)
					v = Val{K: VSlice, Ty: t, F: []Val{scalar(ref, nil), scalar(IntLit(0), nil), scalar(BigLit(n), nil), scalar(BigLit(n), nil)}}
					found = true
					if _, _, isInt := intRange(sl.Elem()); isInt {
						// contents
						for _, l2 := range lines {
							p2 := fmt.Sprintf("VPR ret %d elems ", i)
							if strings.HasPrefix(l2, p2) {
								body := strings.Trim(strings.TrimPrefix(l2, p2), "[]")
								name := g.compName(&Addr{Root: RElem, RootT: sl.Elem()}, leaf{})
								cs := g.compSort(RElem, SInt)
								h := g.heapGet(st, name, cs)
								arr := ConstArray(ArraySort(SInt, SInt), IntLit(0))
								for k, x := range strings.Fields(body) {
									if xv, ok := new(big.Int).SetString(x, 10); ok {
										arr = Store(arr, IntLit(int64(k)), BigLit(xv))
									}
								}
								st.Heap[name] = Store(h, ref, arr)
							}
						}
					}
				}
			}
		}
		if found && i < len(names) {
			vars[names[i]] = v
			if res.Len() == 1 {
				vars["result"] = v
			}
		}
	}
	// errIs facts from the real run
	errFacts := map[string]bool{}
	for _, l := range lines {
		f := strings.Fields(l)
		if len(f) == 6 && f[3] == "errIs" {
			errFacts[f[2]+"/"+f[4]] = f[5] == "true"
		}
	}
	sc := g.specCtxVars(st, g.entry, vars)
	sc.useParams = true
	saved := len(g.Defs)
	t, err := sc.boolTerm(cl.E)
	g.Defs = g.Defs[:saved]
	if err != nil {
		return "unknown", err.Error()
	}
	// substitute the concrete inputs (parameters, entry heap cells)
	t = Subst(t, subst)
	t = rp.foldEntryHeap(t)
	t = rp.foldErrIs(t, vars, names, errFacts)
	t = simplifyDeep(t)
	switch {
	case t.IsTrue():
		return "true", ""
	case t.IsFalse():
		return "false", ExprString(cl.E)
	}
	s := t.String()
	if len(s) > 300 {
		s = s[:300] + "..."
	}
	return "unknown", "residual term " + s
}

// foldEntryHeap replaces reads of entry-heap cells whose value the model fixed.
func (rp *replayer) foldEntryHeap(t *Term) *Term {
	m := map[*Term]*Term{}
	for k, e := range rp.vals {
		if k.Op != "select" {
			continue
		}
		kk := simplifyDeep(Subst(k, rp.litSubst()))
		switch k.S {
		case SInt:
			if iv, ok := e.intValue(); ok {
				m[kk] = BigLit(iv)
				m[k] = BigLit(iv)
			}
		case SBool:
			m[kk] = Bool(e.Atom == "true")
			m[k] = Bool(e.Atom == "true")
		}
	}
	return Subst(simplifyDeep(t), m)
}

func (rp *replayer) litSubst() map[*Term]*Term {
	subst := map[*Term]*Term{}
	for t, e := range rp.vals {
		if t.Op != "const" {
			continue
		}
		switch t.S {
		case SInt:
			if iv, ok := e.intValue(); ok {
				subst[t] = BigLit(iv)
			}
		case SBool:
			subst[t] = Bool(e.Atom == "true")
		}
	}
	return subst
}

func (rp *replayer) foldErrIs(t *Term, vars map[string]Val, names []string, facts map[string]bool) *Term {
	m := map[*Term]*Term{}
	var rec func(x *Term)
	seen := map[*Term]bool{}
	rec = func(x *Term) {
		if seen[x] {
			return
		}
		seen[x] = true
		if x.Op == "app" && x.Name == "vp_errIs" && len(x.Args) == 2 {
			// which result, which sentinel?
			for i, n := range names {
				v, ok := vars[n]
				if !ok || v.T != x.Args[0] {
					continue
				}
				tn := x.Args[1]
				if tn.Op == "const" && strings.HasPrefix(tn.Name, "H0:G:!") {
					gn := tn.Name[strings.LastIndex(tn.Name, ".")+1:]
					if f, ok := facts[fmt.Sprintf("%d/%s", i, gn)]; ok {
						m[x] = Bool(f)
					}
				}
			}
		}
		for _, a := range x.Args {
			rec(a)
		}
	}
	rec(t)
	return Subst(t, m)
}

// simplifyDeep rebuilds a term bottom-up so that constructor-level folding applies.
func simplifyDeep(t *Term) *Term {
	memo := map[*Term]*Term{}
	var rec func(t *Term) *Term
	rec = func(t *Term) *Term {
		if len(t.Args) == 0 {
			return t
		}
		if r, ok := memo[t]; ok {
			return r
		}
		if t.Op == "forall" || t.Op == "exists" {
			r := expandBounded(t, rec)
			memo[t] = r
			return r
		}
		args := make([]*Term, len(t.Args))
		for i, a := range t.Args {
			args[i] = rec(a)
		}
		r := rebuild(t, args)
		memo[t] = r
		return r
	}
	return rec(t)
}

// expandBounded unrolls forall/exists over one Int variable whose range is given
// by literal bounds in the body (lo <= j && j < hi ==> P).
func expandBounded(q *Term, rec func(*Term) *Term) *Term {
	if len(q.Bound) != 1 || q.Bound[0].S != SInt {
		return q
	}
	bv := q.Bound[0]
	body := q.Args[0]
	lo, hi, ok := literalBounds(body, bv, q.Op == "forall")
	if !ok || hi-lo > 1<<16 {
		return q
	}
	var parts []*Term
	for i := lo; i <= hi; i++ {
		parts = append(parts, rec(Subst(body, map[*Term]*Term{bv: IntLit(i)})))
	}
	if q.Op == "forall" {
		return And(parts...)
	}
	return Or(parts...)
}

func literalBounds(body, bv *Term, forall bool) (int64, int64, bool) {
	// collect guards: forall: body = (=> G P) [nested]; exists: body = (and G P)
	var guards []*Term
	b := body
	for {
		if forall && b.Op == "=>" {
			guards = append(guards, b.Args[0])
			b = b.Args[1]
			continue
		}
		break
	}
	if !forall && body.Op == "and" {
		guards = append(guards, body.Args...)
	}
	var flat []*Term
	for _, gd := range guards {
		if gd.Op == "and" {
			flat = append(flat, gd.Args...)
		} else {
			flat = append(flat, gd)
		}
	}
	lo, hi := int64(-1<<62), int64(1<<62)
	for _, c := range flat {
		c = simplifyNoQuant(c)
		if (c.Op == "<=" || c.Op == "<") && len(c.Args) == 2 {
			a, b2 := c.Args[0], c.Args[1]
			if a.Op == "int" && b2 == bv && a.IV.IsInt64() {
				v := a.IV.Int64()
				if c.Op == "<" {
					v++
				}
				if v > lo {
					lo = v
				}
			}
			if b2.Op == "int" && a == bv && b2.IV.IsInt64() {
				v := b2.IV.Int64()
				if c.Op == "<" {
					v--
				}
				if v < hi {
					hi = v
				}
			}
		}
	}
	if lo <= -1<<61 || hi >= 1<<61 {
		return 0, 0, false
	}
	return lo, hi, true
}

func simplifyNoQuant(t *Term) *Term {
	if len(t.Args) == 0 || t.Op == "forall" || t.Op == "exists" {
		return t
	}
	args := make([]*Term, len(t.Args))
	for i, a := range t.Args {
		args[i] = simplifyNoQuant(a)
	}
	return rebuild(t, args)
}

var _ = ssa.NewConst

// fieldAccess renders the selector path of a leaf if every field on it can be
// named from the function's package; sync/atomic values are set through Store.
func (rp *replayer) fieldAccess(t types.Type, acc []int) (string, string) {
	pkg := rp.g.Fn.Pkg.Pkg
	var sb strings.Builder
	for k, i := range acc {
		st, ok := t.Underlying().(*types.Struct)
		if !ok {
			return "", ""
		}
		if n, ok := t.(*types.Named); ok && n.Obj().Pkg() != nil && n.Obj().Pkg().Path() == "sync/atomic" && k == len(acc)-1 {
			return sb.String(), n.Obj().Name()
		}
		f := st.Field(i)
		if !f.Exported() && f.Pkg() != pkg {
			return "", ""
		}
		if f.Name() == "_" {
			return "", ""
		}
		sb.WriteString("." + f.Name())
		t = f.Type()
	}
	if sb.Len() == 0 {
		return " ", ""
	}
	return sb.String(), ""
}

// judgeHarness interprets the output of a hand-written harness: a panic confirms
// no-panic obligations; "VPR postfail <clause>" confirms the clause it names.
func (rp *replayer) judgeHarness(out string) (string, string) {
	var lines []string
	panicked := ""
	for _, l := range strings.Split(out, "\n") {
		if strings.HasPrefix(l, "VPR ") {
			lines = append(lines, l)
			if strings.HasPrefix(l, "VPR panic ") {
				panicked = strings.TrimPrefix(l, "VPR panic ")
			}
		}
	}
	detail := "hand-written harness /verif/replay/" + sanitize(ShortKey(rp.g.Key)) + ".go.txt\n" + strings.Join(lines, "\n")
	if panicKinds[rp.o.Kind] || rp.o.Kind == "pre" {
		if panicked != "" {
			return "confirmed", "the real code panics: " + panicked + "\n" + detail
		}
		return "not-reproduced", detail
	}
	for _, l := range lines {
		if strings.HasPrefix(l, "VPR postfail ") && strings.TrimSpace(strings.TrimPrefix(l, "VPR postfail ")) == strings.TrimSpace(rp.o.Clause) {
			return "confirmed", "the clause is false on the real code\n" + detail
		}
	}
	for _, l := range lines {
		if strings.HasPrefix(l, "VPR violates ") {
			frag := strings.TrimSpace(strings.TrimPrefix(l, "VPR violates "))
			if frag != "" && strings.Contains(rp.o.Clause, frag) {
				return "confirmed", "the clause is violated on the real code\n" + detail
			}
		}
	}
	if panicked != "" && rp.o.Kind == "post" {
		return "confirmed", "the real code panics: " + panicked + "\n" + detail
	}
	return "not-reproduced", detail
}
