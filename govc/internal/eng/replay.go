package eng

// Replay turns a counterexample model into an in-package Go test and runs it on
// the real code (go test -overlay). Outcome: confirmed | not-reproduced |
// no-harness | build-error.
func Replay(o *Obligation, m *Model, opts *CheckOpts) (outcome, detail, testSrc string) {
	return "no-harness", "no replay harness for this function yet", ""
}
