package eng

import (
	"os"
	"fmt"
	"math/big"
	"sort"
)

var skCounter int

// skolemNeg returns a formula equisatisfiable with ¬t, with the universal
// quantifiers of t (existential after negation) replaced by fresh constants.
func skolemNeg(t *Term) *Term {
	switch t.Op {
	case "forall":
		return skolemNeg(instFresh(t))
	case "=>":
		return And(skolemPos(t.Args[0]), skolemNeg(t.Args[1]))
	case "and":
		var ds []*Term
		for _, a := range t.Args {
			ds = append(ds, skolemNeg(a))
		}
		return Or(ds...)
	case "or":
		var cs []*Term
		for _, a := range t.Args {
			cs = append(cs, skolemNeg(a))
		}
		return And(cs...)
	case "not":
		return skolemPos(t.Args[0])
	case "=":
		if t.Args[0].S == SBool && (quantInside(t.Args[0]) || quantInside(t.Args[1])) {
			a, b := t.Args[0], t.Args[1]
			return Or(And(skolemPos(a), skolemNeg(b)), And(skolemNeg(a), skolemPos(b)))
		}
	}
	return Not(t)
}

var quantMemo = map[*Term]bool{}

func quantInside(t *Term) bool {
	if v, ok := quantMemo[t]; ok {
		return v
	}
	r := t.Op == "forall" || t.Op == "exists"
	if !r {
		for _, a := range t.Args {
			if quantInside(a) {
				r = true
				break
			}
		}
	}
	quantMemo[t] = r
	return r
}

func skolemPos(t *Term) *Term {
	switch t.Op {
	case "exists":
		return skolemPos(instFresh(t))
	case "and":
		var cs []*Term
		for _, a := range t.Args {
			cs = append(cs, skolemPos(a))
		}
		return And(cs...)
	case "or":
		var ds []*Term
		for _, a := range t.Args {
			ds = append(ds, skolemPos(a))
		}
		return Or(ds...)
	case "=>":
		return Or(skolemNeg(t.Args[0]), skolemPos(t.Args[1]))
	case "not":
		return skolemNeg(t.Args[0])
	case "=":
		if t.Args[0].S == SBool && (quantInside(t.Args[0]) || quantInside(t.Args[1])) {
			a, b := t.Args[0], t.Args[1]
			return And(Or(skolemNeg(a), skolemPos(b)), Or(skolemNeg(b), skolemPos(a)))
		}
	}
	return t
}

func instFresh(q *Term) *Term {
	m := map[*Term]*Term{}
	for _, b := range q.Bound {
		skCounter++
		m[b] = Const(fmt.Sprintf("vp_sk!%s!%d", b.Name, skCounter), b.S)
	}
	return Subst(q.Args[0], m)
}

// ---------------------------------------------------------------- instantiation

type instCtx struct {
	sels   []gsel // ground reads/writes (array and index both closed)
	ground map[string]map[*Term]bool // ground index terms by array sort / function argument
	byArr  map[*Term]map[*Term]bool  // ground index terms by the exact array term read
	quants map[*Term]bool
	seen   map[*Term]bool
}

func containsBound(t *Term, memo map[*Term]bool) bool {
	if v, ok := memo[t]; ok {
		return v
	}
	r := false
	if t.Op == "bound" {
		r = true
	} else {
		for _, a := range t.Args {
			if containsBound(a, memo) {
				r = true
				break
			}
		}
	}
	memo[t] = r
	return r
}

func (ic *instCtx) scan(t *Term, bmemo map[*Term]bool) {
	if ic.seen[t] {
		return
	}
	ic.seen[t] = true
	if t.Op == "forall" && !hasFreeBound(t) {
		ic.quants[t] = true
	}
	if t.Op == "select" || t.Op == "store" {
		i := t.Args[1]
		if !containsBound(i, bmemo) {
			if !containsBound(t.Args[0], bmemo) {
				ic.sels = append(ic.sels, gsel{t.Args[0], i})
			}
			k := t.Args[0].S.String()
			m := ic.ground[k]
			if m == nil {
				m = map[*Term]bool{}
				ic.ground[k] = m
			}
			m[i] = true
			ma := ic.byArr[t.Args[0]]
			if ma == nil {
				ma = map[*Term]bool{}
				ic.byArr[t.Args[0]] = ma
			}
			ma[i] = true
		}
	}
	if t.Op == "app" {
		// arguments of uninterpreted predicates/functions are index-like too
		for ai, a := range t.Args {
			if a.S.K != KArray && a.S != SBool && !containsBound(a, bmemo) {
				k := fmt.Sprintf("%s/%d", t.Name, ai)
				m := ic.ground[k]
				if m == nil {
					m = map[*Term]bool{}
					ic.ground[k] = m
				}
				m[a] = true
			}
		}
	}
	for _, a := range t.Args {
		ic.scan(a, bmemo)
	}
	for _, p := range t.Pats {
		_ = p
	}
}

// patterns collects, for a bound variable, the index expressions in which it occurs.
type idxPat struct {
	key string
	p   *Term
}

func indexPatterns(body *Term, bv *Term) []idxPat {
	var out []idxPat
	seen := map[*Term]bool{}
	var occurs func(t *Term) bool
	omemo := map[*Term]bool{}
	occurs = func(t *Term) bool {
		if v, ok := omemo[t]; ok {
			return v
		}
		r := t == bv
		for _, a := range t.Args {
			if occurs(a) {
				r = true
			}
		}
		omemo[t] = r
		return r
	}
	var rec func(t *Term)
	rec = func(t *Term) {
		if seen[t] {
			return
		}
		seen[t] = true
		if (t.Op == "select" || t.Op == "store") && occurs(t.Args[1]) {
			out = append(out, idxPat{t.Args[0].S.String(), t.Args[1]})
		}
		if t.Op == "app" {
			for ai, a := range t.Args {
				if a.S == bv.S && occurs(a) {
					out = append(out, idxPat{fmt.Sprintf("%s/%d", t.Name, ai), a})
				}
			}
		}
		for _, a := range t.Args {
			rec(a)
		}
	}
	rec(body)
	return out
}

// solveFor finds x such that p[bv := x] == target, for p linear in bv (coefficient ±1).
func solveFor(p, bv, target *Term) *Term {
	if p == bv {
		return target
	}
	has := func(t *Term) bool {
		found := false
		var rec func(t *Term)
		seen := map[*Term]bool{}
		rec = func(t *Term) {
			if found || seen[t] {
				return
			}
			seen[t] = true
			if t == bv {
				found = true
				return
			}
			for _, a := range t.Args {
				rec(a)
			}
		}
		rec(t)
		return found
	}
	switch p.Op {
	case "+":
		a, b := p.Args[0], p.Args[1]
		switch {
		case has(a) && !has(b):
			return solveFor(a, bv, Sub(target, b))
		case has(b) && !has(a):
			return solveFor(b, bv, Sub(target, a))
		}
	case "-":
		a, b := p.Args[0], p.Args[1]
		switch {
		case has(a) && !has(b):
			return solveFor(a, bv, Add(target, b))
		case has(b) && !has(a):
			return solveFor(b, bv, Sub(a, target))
		}
	case "*":
		// c * x == c * t  =>  x == t   (only the syntactically divisible case)
		a, b := p.Args[0], p.Args[1]
		if b.Op == "int" && has(a) {
			a, b = b, a
		}
		if a.Op == "int" && a.IV.Sign() != 0 && has(b) {
			if target.Op == "*" {
				ta, tb := target.Args[0], target.Args[1]
				if tb.Op == "int" {
					ta, tb = tb, ta
				}
				if ta.Op == "int" && ta.IV.Cmp(a.IV) == 0 {
					return solveFor(b, bv, tb)
				}
			}
			if target.Op == "int" {
				q, r := new(big.Int).QuoRem(target.IV, a.IV, new(big.Int))
				if r.Sign() == 0 {
					return solveFor(b, bv, BigLit(q))
				}
			}
		}
	}
	return nil
}

// Instantiate adds ground instances (Q ⇒ body[t]) of the universally quantified
// subformulas, over the index terms that occur in the query. Every added formula
// is valid, so this is sound in any polarity.
func Instantiate(asserts []*Term, rounds int, capPerQuant int) []*Term {
	return InstantiateSeeded(asserts, rounds, capPerQuant, 0)
}

// InstantiateSeeded: with seedRoots > 0 only the index terms of the last
// seedRoots assertions (path condition and negated goal) and of the instances
// generated so far are used as instantiation candidates (goal-directed).
func InstantiateSeeded(asserts []*Term, rounds int, capPerQuant int, seedRoots int) []*Term {
	out := append([]*Term{}, asserts...)
	done := map[[2]*Term]bool{}
	var generated []*Term
	for r := 0; r < rounds; r++ {
		ic := &instCtx{byArr: map[*Term]map[*Term]bool{}, ground: map[string]map[*Term]bool{}, quants: map[*Term]bool{}, seen: map[*Term]bool{}}
		bmemo := map[*Term]bool{}
		if seedRoots > 0 {
			// quantifiers from everywhere, ground terms only from the seeds
			qc := &instCtx{byArr: map[*Term]map[*Term]bool{}, ground: map[string]map[*Term]bool{}, quants: map[*Term]bool{}, seen: map[*Term]bool{}}
			for _, a := range out {
				qc.scan(a, bmemo)
			}
			n := len(asserts)
			for i := n - seedRoots; i < n; i++ {
				if i >= 0 {
					ic.scan(out[i], bmemo)
				}
			}
			for _, gt := range generated {
				ic.scan(gt, bmemo)
			}
			ic.quants = qc.quants
		} else {
			for _, a := range out {
				ic.scan(a, bmemo)
			}
		}
		var qs []*Term
		for q := range ic.quants {
			qs = append(qs, q)
		}
		sort.Slice(qs, func(i, j int) bool { return qs[i].id < qs[j].id })
		added := 0
		insts := map[*Term][]*Term{}
		var byKey map[string][]gsel
		if strictInst {
			sort.SliceStable(ic.sels, func(i, j int) bool {
				if ic.sels[i].arr.id != ic.sels[j].arr.id {
					return ic.sels[i].arr.id < ic.sels[j].arr.id
				}
				return ic.sels[i].idx.id < ic.sels[j].idx.id
			})
			byKey = indexGround(ic.sels)
		}
		for _, q := range qs {
			body := q.Args[0]
			if strictInst {
				if os.Getenv("VP_DEBUG_INST") != "" {
					fmt.Printf("INST round=%d quant=%d bound=%d sels=%d tuples=%d\n", r, q.id, len(q.Bound), len(ic.sels), len(strictTuples(q, ic.sels, byKey, ic.ground, capPerQuant)))
				}
				for _, tup := range strictTuples(q, ic.sels, byKey, ic.ground, capPerQuant) {
					m := map[*Term]*Term{}
					var kt *Term = True
					for bi, bv := range q.Bound {
						m[bv] = tup[bi]
						kt = mk("tuple", "", SBool, nil, nil, kt, tup[bi])
					}
					dk := [2]*Term{q, kt}
					if done[dk] {
						continue
					}
					done[dk] = true
					inst := Subst(body, m)
					insts[q] = append(insts[q], inst)
					generated = append(generated, inst)
					added++
				}
				continue
			}
			// candidate values per bound variable
			cands := make([][]*Term, len(q.Bound))
			for bi, bv := range q.Bound {
				if len(q.Pats) > 0 {
					// explicit patterns select(A, p(k)) with ground A: exact matching only
					set := map[*Term]bool{}
					for _, pt := range q.Pats {
						if pt.Op != "select" || containsBound(pt.Args[0], bmemo) {
							continue
						}
						var gs []*Term
						src := ic.byArr[pt.Args[0]]
						if pt.Args[1] == bv && q.Name != "exact" {
							// pattern select(A, k): the array A may be reached through merged or
							// stored heap versions, so every index read from an array of A's sort
							// is a candidate (instances are cheap: k := index)
							src = ic.ground[pt.Args[0].S.String()]
						}
						for t := range src {
							gs = append(gs, t)
						}
						sort.Slice(gs, func(i, j int) bool { return gs[i].id < gs[j].id })
						for _, t := range gs {
							if x := solveFor(pt.Args[1], bv, t); x != nil && !set[x] {
								set[x] = true
								cands[bi] = append(cands[bi], x)
							}
						}
					}
					continue
				}
				pats := indexPatterns(body, bv)
				set := map[*Term]bool{}
				for _, ip := range pats {
					p := ip.p
					var gs []*Term
					for t := range ic.ground[ip.key] {
						gs = append(gs, t)
					}
					sort.Slice(gs, func(i, j int) bool { return gs[i].id < gs[j].id })
					for _, t := range gs {
						if x := solveFor(p, bv, t); x != nil && !set[x] {
							set[x] = true
							cands[bi] = append(cands[bi], x)
						}
					}
				}
				if len(pats) == 0 {
					cands[bi] = nil
				}
			}
			// goal skolems first, small terms first
			for bi := range cands {
				c := cands[bi]
				sort.SliceStable(c, func(i, j int) bool {
					si, sj := hasSkolem(c[i]), hasSkolem(c[j])
					if si != sj {
						return si
					}
					return termSize(c[i]) < termSize(c[j])
				})
			}
			// cartesian product (capped)
			idx := make([]int, len(q.Bound))
			count := 0
			ok := true
			for _, c := range cands {
				if len(c) == 0 {
					ok = false
				}
			}
			for ok && count < capPerQuant {
				m := map[*Term]*Term{}
				key := q
				var kt *Term = True
				for bi, bv := range q.Bound {
					m[bv] = cands[bi][idx[bi]]
					kt = mk("tuple", "", SBool, nil, nil, kt, cands[bi][idx[bi]])
				}
				dk := [2]*Term{key, kt}
				if !done[dk] {
					done[dk] = true
					inst := Subst(body, m)
					insts[q] = append(insts[q], inst)
					generated = append(generated, inst)
					added++
					count++
				}
				// next index
				j := 0
				for j < len(idx) {
					idx[j]++
					if idx[j] < len(cands[j]) {
						break
					}
					idx[j] = 0
					j++
				}
				if j == len(idx) {
					break
				}
			}
		}
		if added == 0 {
			break
		}
		// Q is equivalent to Q ∧ Q[t1] ∧ Q[t2] ...: rewrite in place (sound in any
		// polarity, and keeps every quantifier occurrence positive)
		rw := map[*Term]*Term{}
		for q, is := range insts {
			rw[q] = And(append([]*Term{q}, is...)...)
		}
		for i, a := range out {
			out[i] = substQuant(a, rw)
		}
	}
	return out
}

// elimDiv names every ground (div a b)/(mod a b) with a non-literal divisor by
// fresh constants q, r with a = b*q + r ∧ 0 <= r < |b| (for b != 0). Solvers do
// far better on the explicit nonlinear form than on div/mod with a variable divisor.
func elimDiv(asserts []*Term) []*Term {
	type qr struct{ q, r *Term }
	pairs := map[[2]*Term]qr{}
	var order [][2]*Term
	bmemo := map[*Term]bool{}
	m := map[*Term]*Term{}
	seen := map[*Term]bool{}
	var rec func(t *Term)
	rec = func(t *Term) {
		if seen[t] {
			return
		}
		seen[t] = true
		for _, a := range t.Args {
			rec(a)
		}
		if (t.Op == "div" || t.Op == "mod") && t.Args[1].Op != "int" && !containsBound(t, bmemo) {
			k := [2]*Term{t.Args[0], t.Args[1]}
			p, ok := pairs[k]
			if !ok {
				p = qr{Const(fmt.Sprintf("vp_divq!%d", t.Args[0].id*100003+t.Args[1].id), SInt), Const(fmt.Sprintf("vp_divr!%d", t.Args[0].id*100003+t.Args[1].id), SInt)}
				pairs[k] = p
				order = append(order, k)
			}
			if t.Op == "div" {
				m[t] = p.q
			} else {
				m[t] = p.r
			}
		}
	}
	for _, a := range asserts {
		rec(a)
	}
	if len(m) == 0 {
		return asserts
	}
	// substitute innermost-first: repeat until stable (nested divs are rare)
	out := make([]*Term, 0, len(asserts)+len(order))
	for _, a := range asserts {
		out = append(out, Subst(a, m))
	}
	for _, k := range order {
		p := pairs[k]
		a, b := Subst(k[0], m), Subst(k[1], m)
		absB := Ite(Ge(b, IntLit(0)), b, Neg(b))
		out = append(out, Implies(Ne(b, IntLit(0)), And(Eq(a, Add(Mul(b, p.q), p.r)), Le(IntLit(0), p.r), Lt(p.r, absB))))
	}
	return out
}

// substQuant replaces whole quantified subterms (it does not descend into them).
func substQuant(t *Term, m map[*Term]*Term) *Term {
	memo := map[*Term]*Term{}
	var rec func(t *Term) *Term
	rec = func(t *Term) *Term {
		if r, ok := m[t]; ok {
			return r
		}
		if len(t.Args) == 0 || t.Op == "forall" || t.Op == "exists" {
			return t
		}
		if r, ok := memo[t]; ok {
			return r
		}
		args := make([]*Term, len(t.Args))
		ch := false
		for i, a := range t.Args {
			args[i] = rec(a)
			if args[i] != a {
				ch = true
			}
		}
		r := t
		if ch {
			r = rebuild(t, args)
		}
		memo[t] = r
		return r
	}
	return rec(t)
}

var skMemo = map[*Term]bool{}

func hasSkolem(t *Term) bool {
	if v, ok := skMemo[t]; ok {
		return v
	}
	r := t.Op == "const" && len(t.Name) > 6 && t.Name[:6] == "vp_sk!"
	if !r {
		for _, a := range t.Args {
			if hasSkolem(a) {
				r = true
				break
			}
		}
	}
	skMemo[t] = r
	return r
}

var sizeMemo = map[*Term]int{}

func termSize(t *Term) int {
	if v, ok := sizeMemo[t]; ok {
		return v
	}
	n := 1
	for _, a := range t.Args {
		n += termSize(a)
	}
	sizeMemo[t] = n
	return n
}

// dropPosForalls replaces every pattern-less universal in positive position by
// true (a weakening of an assumption: sound for proving). Quantifiers in negative
// or unknown polarity are kept.
func dropPosForalls(t *Term) *Term {
	memo := map[[2]any]*Term{}
	var rec func(t *Term, pos bool) *Term
	rec = func(t *Term, pos bool) *Term {
		if !quantInside(t) {
			return t
		}
		k := [2]any{t, pos}
		if r, ok := memo[k]; ok {
			return r
		}
		var r *Term
		switch t.Op {
		case "forall":
			if pos && len(t.Pats) == 0 {
				r = True
			} else {
				r = t
			}
		case "and", "or":
			args := make([]*Term, len(t.Args))
			for i, a := range t.Args {
				args[i] = rec(a, pos)
			}
			r = rebuild(t, args)
		case "not":
			r = Not(rec(t.Args[0], !pos))
		case "=>":
			r = Implies(rec(t.Args[0], !pos), rec(t.Args[1], pos))
		case "ite":
			if t.S == SBool && !quantInside(t.Args[0]) {
				r = Ite(t.Args[0], rec(t.Args[1], pos), rec(t.Args[2], pos))
			} else {
				r = t
			}
		default:
			r = t
		}
		memo[k] = r
		return r
	}
	return rec(t, true)
}
