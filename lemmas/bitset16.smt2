; Bit-level facts behind the trusted Int-level contracts of util.BitSet (Set, Count)
; and the axiom popcount-monotone, for ALL 16-bit values. unsat = all three hold.
(set-logic QF_BV)
(define-fun bit ((b (_ BitVec 16)) (i (_ BitVec 16))) Bool (= ((_ extract 0 0) (bvlshr b i)) #b1))
(define-fun pc ((b (_ BitVec 16))) (_ BitVec 16)
  (bvadd ((_ zero_extend 15) ((_ extract 0 0) b)) ((_ zero_extend 15) ((_ extract 1 1) b)) ((_ zero_extend 15) ((_ extract 2 2) b)) ((_ zero_extend 15) ((_ extract 3 3) b))
         ((_ zero_extend 15) ((_ extract 4 4) b)) ((_ zero_extend 15) ((_ extract 5 5) b)) ((_ zero_extend 15) ((_ extract 6 6) b)) ((_ zero_extend 15) ((_ extract 7 7) b))
         ((_ zero_extend 15) ((_ extract 8 8) b)) ((_ zero_extend 15) ((_ extract 9 9) b)) ((_ zero_extend 15) ((_ extract 10 10) b)) ((_ zero_extend 15) ((_ extract 11 11) b))
         ((_ zero_extend 15) ((_ extract 12 12) b)) ((_ zero_extend 15) ((_ extract 13 13) b)) ((_ zero_extend 15) ((_ extract 14 14) b)) ((_ zero_extend 15) ((_ extract 15 15) b))))
(declare-const b (_ BitVec 16))
(declare-const a (_ BitVec 16))
(declare-const i (_ BitVec 16))
(declare-const j (_ BitVec 16))
(assert (bvult i #x0010))
(assert (bvult j #x0010))
(define-fun b2 () (_ BitVec 16) (bvor b (bvshl #x0001 i)))
(assert (or
  ; F1: Set(i) sets bit i and leaves every other bit
  (not (bit b2 i))
  (and (distinct i j) (not (= (bit b2 j) (bit b j))))
  ; F2: the count grows by one exactly when the bit was clear
  (not (= (pc b2) (bvadd (pc b) (ite (bit b i) #x0000 #x0001))))
  ; F3: range, empty set
  (bvugt (pc b) #x0010)
  (not (= (pc #x0000) #x0000))
  ; F5: a set bit means a positive count
  (and (bit b j) (= (pc b) #x0000))
  ; F4: subset implies count <=   (a subset of b, i.e. a & ~b == 0)
  (and (= (bvand a (bvnot b)) #x0000) (bvugt (pc a) (pc b)))
))
(check-sat)
